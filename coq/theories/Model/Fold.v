(** * Fold: folding, unfolding, ancestral misidentification and the Spectrum arithmetic glue
      (dadi/Spectrum_mod.py fold / unfold / operator overloads, dadi/Numerics.py reverse_array /
       apply_anc_state_misid, dadi/Inference.py automatic folding of the model).

    Executable model only.  Three layers:
    1. the array code of fold/unfold/misid written pointwise over ANY index type with a mirror map
       (an array is a total function on indices; `reverse` is composition with the mirror);
    2. the concrete d-dimensional index set for every shape (multi-indices in C order, mirror
       i_k -> n_k - 1 - i_k, flat position `ravel`), arrays stored as C-order flat lists;
    3. Spectrum records (folded flag, data, mask, labels, extrap_x) with fold/unfold/misid, the
       14 binary and 7 in-place operator overloads, basic slicing and the likelihood auto-fold. *)
From Coq Require Import ZArith List Bool Arith.
From Dadi Require Import Base.Num.
Import ListNotations.
Local Open Scope num_scope.

(** ** 1. pointwise code over an abstract index set *)
Section Pointwise.
  Context {F : Type} `{Num F} {I : Type}.
  Variable mir : I -> I.          (* reverse_array: position of the entry that lands on i *)
  Variable tot : I -> nat.        (* _total_per_entry *)
  Variable N : nat.               (* total_samples = sum(sample_sizes) *)
  Variable cor : I -> bool.       (* the two entries masked by mask_corners(): flat[0], flat[-1] *)

  (** total_per_entry > int(total_samples/2) *)
  Definition folded_out (i : I) : bool := Nat.ltb (N / 2) (tot i).
  (** total_per_entry == total_samples/2.   (float comparison of two small integers / half-integers) *)
  Definition ambiguous (i : I) : bool := Nat.eqb (2 * tot i) N.

  Definition reverse {A : Type} (x : I -> A) : I -> A := fun i => x (mir i).
  Definition where_ {A : Type} (c : I -> bool) (x : I -> A) (z : A) : I -> A :=
    fun i => if c i then x i else z.

  (** Spectrum.fold, data:
        reversed = reverse_array(numpy.where(where_folded_out, self, 0))
        folded = self.data + reversed ; folded.data[where_folded_out] = 0
        ambiguous = numpy.where(where_ambiguous, self, 0)
        folded += -0.5*ambiguous + 0.5*reverse_array(ambiguous) *)
  Definition fold_val (x : I -> F) : I -> F :=
    let reversed := reverse (where_ folded_out x n0) in
    let folded := fun i => if folded_out i then n0 else x i + reversed i in
    let amb := where_ ambiguous x n0 in
    fun i => folded i + ((- nhalf) * amb i + nhalf * reverse amb i).

  (** Spectrum.fold, mask:
        final_mask = logical_or(original_mask, reverse_array(original_mask))
        final_mask = logical_or(final_mask, where_folded_out)
        Spectrum(folded, mask=final_mask, data_folded=True, ...)   -- constructor default mask_corners=True *)
  Definition fold_mask (m : I -> bool) : I -> bool :=
    let final := fun i => m i || reverse m i in
    let final := fun i => final i || folded_out i in
    fun i => final i || cor i.

  (** Spectrum.unfold:
        newdata = (self.data + reverse_array(self.data))/2.
        newmask = logical_xor(self.mask, where_folded_out)
        newmask = logical_or(newmask, reverse_array(newmask)) ; constructor masks the corners *)
  Definition unfold_val (x : I -> F) : I -> F := fun i => (x i + reverse x i) / n2.
  Definition unfold_mask (m : I -> bool) : I -> bool :=
    let nm := fun i => xorb (m i) (folded_out i) in
    fun i => (nm i || reverse nm i) || cor i.

  (** Numerics.apply_anc_state_misid:  (1-p_misid)*fs + p_misid*reverse_array(fs)
      (Spectrum operators: masks are OR-ed, no corner masking) *)
  Definition misid_val (p : F) (x : I -> F) : I -> F :=
    fun i => (n1 - p) * x i + p * reverse x i.
  Definition misid_mask (m : I -> bool) : I -> bool := fun i => m i || reverse m i.
End Pointwise.

(** ** 2. d-dimensional arrays of any shape *)
(** shape = list of axis lengths (numpy .shape); sample sizes are shape - 1 *)
Definition size (s : list nat) : nat := fold_right Nat.mul 1%nat s.
Definition total_samples (s : list nat) : nat := list_sum (map Nat.pred s).

(** all multi-indices of an array of shape s, in C order (last axis fastest) *)
Fixpoint enum (s : list nat) : list (list nat) :=
  match s with
  | [] => [[]]
  | n :: r => flat_map (fun i => map (cons i) (enum r)) (seq 0 n)
  end.

(** reverse_array on indices: arr[::-1, ::-1, ...] puts entry (n_k - 1 - i_k) at position i *)
Fixpoint mirror_mi (s mi : list nat) : list nat :=
  match s, mi with
  | n :: r, i :: q => (n - 1 - i)%nat :: mirror_mi r q
  | _, _ => []
  end.

(** flat (C-order) position of a multi-index *)
Fixpoint ravel (s mi : list nat) : nat :=
  match s, mi with
  | _ :: r, i :: q => (i * size r + ravel r q)%nat
  | _, _ => 0%nat
  end.

(** _total_per_entry: sum of the index vector *)
Definition total (mi : list nat) : nat := list_sum mi.

(** mask_corners: self.mask.flat[0] = self.mask.flat[-1] = True *)
Definition is_corner (s mi : list nat) : bool :=
  Nat.eqb (ravel s mi) 0 || Nat.eqb (S (ravel s mi)) (size s).

(** array <-> C-order flat list *)
Definition arr_of {A : Type} (s : list nat) (xs : list A) (d : A) : list nat -> A :=
  fun mi => nth (ravel s mi) xs d.
Definition tabulate {A : Type} (s : list nat) (f : list nat -> A) : list A := map f (enum s).

Fixpoint map2 {A B C : Type} (f : A -> B -> C) (a : list A) (b : list B) : list C :=
  match a, b with
  | x :: a', y :: b' => f x y :: map2 f a' b'
  | _, _ => []
  end.

Section ND.
  Context {F : Type} `{Num F}.

  Definition fold_nd (s : list nat) := fold_val (F := F) (mirror_mi s) total (total_samples s).
  Definition fold_mask_nd (s : list nat) := fold_mask (mirror_mi s) total (total_samples s) (is_corner s).
  Definition unfold_nd (s : list nat) := unfold_val (F := F) (mirror_mi s).
  Definition unfold_mask_nd (s : list nat) := unfold_mask (mirror_mi s) total (total_samples s) (is_corner s).
  Definition misid_nd (s : list nat) := misid_val (F := F) (mirror_mi s).
  Definition misid_mask_nd (s : list nat) := misid_mask (mirror_mi s).

  (** the same on C-order flat lists *)
  Definition fold_data_l (s : list nat) (xs : list F) : list F := tabulate s (fold_nd s (arr_of s xs n0)).
  Definition fold_mask_l (s : list nat) (ms : list bool) : list bool := tabulate s (fold_mask_nd s (arr_of s ms false)).
  Definition unfold_data_l (s : list nat) (xs : list F) : list F := tabulate s (unfold_nd s (arr_of s xs n0)).
  Definition unfold_mask_l (s : list nat) (ms : list bool) : list bool := tabulate s (unfold_mask_nd s (arr_of s ms false)).
  Definition misid_data_l (s : list nat) (p : F) (xs : list F) : list F := tabulate s (misid_nd s p (arr_of s xs n0)).
  Definition misid_mask_l (s : list nat) (ms : list bool) : list bool := tabulate s (misid_mask_nd s (arr_of s ms false)).
  Definition reverse_l {A : Type} (s : list nat) (xs : list A) (d : A) : list A :=
    tabulate s (reverse (mirror_mi s) (arr_of s xs d)).

  (** sum over the entries that are not masked (numpy.ma sum) *)
  Definition msum (ms : list bool) (xs : list F) : F :=
    nsum (map2 (fun (m : bool) x => if m then n0 else x) ms xs).

  (** ** 3. Spectrum objects *)
  Record lspec := {
    ls_shape : list nat;
    ls_folded : bool;
    ls_data : list F;                 (* .data, C order *)
    ls_mask : list bool;              (* .mask, C order *)
    ls_ids : option (list nat);       (* pop_ids; each label is represented by a number *)
    ls_ex : option F                  (* extrap_x *)
  }.

  (** fold: ValueError('Input Spectrum is already folded.') -> None *)
  Definition fold_ls (a : lspec) : option lspec :=
    if ls_folded a then None
    else Some {| ls_shape := ls_shape a; ls_folded := true;
                 ls_data := fold_data_l (ls_shape a) (ls_data a);
                 ls_mask := fold_mask_l (ls_shape a) (ls_mask a);
                 ls_ids := ls_ids a; ls_ex := ls_ex a |}.

  (** unfold: ValueError('Input Spectrum is not folded.') -> None *)
  Definition unfold_ls (a : lspec) : option lspec :=
    if negb (ls_folded a) then None
    else Some {| ls_shape := ls_shape a; ls_folded := false;
                 ls_data := unfold_data_l (ls_shape a) (ls_data a);
                 ls_mask := unfold_mask_l (ls_shape a) (ls_mask a);
                 ls_ids := ls_ids a; ls_ex := ls_ex a |}.

  Definition misid_ls (p : F) (a : lspec) : lspec :=
    {| ls_shape := ls_shape a; ls_folded := ls_folded a;
       ls_data := misid_data_l (ls_shape a) p (ls_data a);
       ls_mask := misid_mask_l (ls_shape a) (ls_mask a);
       ls_ids := ls_ids a; ls_ex := ls_ex a |}.

  (** *** operator overloads *)
  Inductive operand :=
  | OScalar (c : F)                                  (* python / numpy scalar *)
  | OArray (xs : list F)                             (* numpy.ndarray of the same shape *)
  | OMasked (xs : list F) (ms : list bool)           (* numpy.ma.masked_array that is not a Spectrum *)
  | OSpec (b : lspec).                               (* another Spectrum *)

  Inductive outcome :=
  | Refused            (* ValueError: Cannot operate with a folded Spectrum and an unfolded one. *)
  | NoSuchOp           (* self.data.<method> does not exist (ndarray has no __div__/__rdiv__/__idiv__ under Python 3) *)
  | Done (r : lspec).

  (** _check_other_folding: only another Spectrum is checked *)
  Definition same_folding (self : lspec) (o : operand) : bool :=
    match o with OSpec b => Bool.eqb (ls_folded b) (ls_folded self) | _ => true end.

  Definition other_data (len : nat) (o : operand) : list F :=
    match o with
    | OScalar c => repeat c len
    | OArray xs => xs
    | OMasked xs _ => xs
    | OSpec b => ls_data b
    end.
  (** isinstance(other, numpy.ma.masked_array) *)
  Definition other_mask (o : operand) : option (list bool) :=
    match o with
    | OMasked _ ms => Some ms
    | OSpec b => Some (ls_mask b)
    | _ => None
    end.
  Definition new_mask (self : lspec) (o : operand) : list bool :=
    match other_mask o with
    | Some m => map2 orb (ls_mask self) m          (* numpy.ma.mask_or(self.mask, other.mask) *)
    | None => ls_mask self
    end.
  Definition opt_eqb (a b : option F) : bool :=
    match a, b with
    | None, None => true
    | Some x, Some y => x =? y
    | _, _ => false
    end.
  (** hasattr(other,'extrap_x') and self.extrap_x != other.extrap_x -> None *)
  Definition new_ex (self : lspec) (o : operand) : option F :=
    match o with
    | OSpec b => if opt_eqb (ls_ex self) (ls_ex b) then ls_ex self else None
    | _ => ls_ex self
    end.
  (** newpop_ids: other's labels only when self has none (a mismatch only logs a warning) *)
  Definition new_ids (self : lspec) (o : operand) : option (list nat) :=
    match o with
    | OSpec b => match ls_ids b with
                 | None => ls_ids self
                 | Some ib => match ls_ids self with None => Some ib | Some ia => Some ia end
                 end
    | _ => ls_ids self
    end.

  (** the 14 binary methods; [f a b] is the element-wise numpy method self.data.<method>(other)
      ([a] from self), [avail] tells whether numpy.ndarray has that method *)
  Definition binop (f : F -> F -> F) (avail : bool) (self : lspec) (o : operand) : outcome :=
    if negb (same_folding self o) then Refused
    else if negb avail then NoSuchOp
    else Done {| ls_shape := ls_shape self;
                 ls_folded := ls_folded self;            (* data_folded=self.folded *)
                 ls_data := map2 f (ls_data self) (other_data (length (ls_data self)) o);
                 ls_mask := new_mask self o;             (* mask_corners=False *)
                 ls_ids := new_ids self o;
                 ls_ex := new_ex self o |}.

  (** the 7 in-place methods: self is updated and returned; labels are never changed *)
  Definition iop (f : F -> F -> F) (avail : bool) (self : lspec) (o : operand) : outcome :=
    if negb (same_folding self o) then Refused
    else if negb avail then NoSuchOp
    else Done {| ls_shape := ls_shape self;
                 ls_folded := ls_folded self;
                 ls_data := map2 f (ls_data self) (other_data (length (ls_data self)) o);
                 ls_mask := new_mask self o;
                 ls_ids := ls_ids self;
                 ls_ex := new_ex self o |}.

  Inductive opname := Add | Radd | Sub | Rsub | Mul | Rmul | Div | Rdiv | Truediv | Rtruediv
                    | Floordiv | Rfloordiv | Rpow | Pow.
  Inductive iopname := Iadd | Isub | Imul | Idiv | Itruediv | Ifloordiv | Ipow.
  Definition op_avail (o : opname) : bool := match o with Div | Rdiv => false | _ => true end.
  Definition iop_avail (o : iopname) : bool := match o with Idiv => false | _ => true end.
  (** element-wise functions; floor division and power are numpy's, supplied by the instance *)
  Definition op_fun (fdiv powf : F -> F -> F) (o : opname) : F -> F -> F :=
    match o with
    | Add => fun a b => a + b | Radd => fun a b => b + a
    | Sub => fun a b => a - b | Rsub => fun a b => b - a
    | Mul => fun a b => a * b | Rmul => fun a b => b * a
    | Div | Truediv => fun a b => a / b | Rdiv | Rtruediv => fun a b => b / a
    | Floordiv => fdiv | Rfloordiv => fun a b => fdiv b a
    | Pow => powf | Rpow => fun a b => powf b a
    end.
  Definition iop_fun (fdiv powf : F -> F -> F) (o : iopname) : F -> F -> F :=
    match o with
    | Iadd => fun a b => a + b | Isub => fun a b => a - b | Imul => fun a b => a * b
    | Idiv | Itruediv => fun a b => a / b | Ifloordiv => fdiv | Ipow => powf
    end.
  Definition spec_binop fdiv powf (o : opname) := binop (op_fun fdiv powf o) (op_avail o).
  Definition spec_iop fdiv powf (o : iopname) := iop (iop_fun fdiv powf o) (iop_avail o).

  (** *** basic slicing  fs[sel_1, ..., sel_d]: an integer drops its axis, a slice keeps it with the
      listed positions (python: range over slice.indices(n)); attributes are copied by _update_from *)
  Inductive axsel := AIndex (i : nat) | ATake (l : list nat).
  Fixpoint sel_enum (sel : list axsel) : list (list nat) :=
    match sel with
    | [] => [[]]
    | AIndex i :: r => map (cons i) (sel_enum r)
    | ATake l :: r => flat_map (fun i => map (cons i) (sel_enum r)) l
    end.
  Fixpoint sel_shape (sel : list axsel) : list nat :=
    match sel with
    | [] => []
    | AIndex _ :: r => sel_shape r
    | ATake l :: r => length l :: sel_shape r
    end.
  Definition slice_ls (sel : list axsel) (a : lspec) : lspec :=
    {| ls_shape := sel_shape sel; ls_folded := ls_folded a;
       ls_data := map (arr_of (ls_shape a) (ls_data a) n0) (sel_enum sel);
       ls_mask := map (arr_of (ls_shape a) (ls_mask a) false) (sel_enum sel);
       ls_ids := ls_ids a; ls_ex := ls_ex a |}.

  (** *** Inference.ll / ll_multinom: the model is folded automatically against folded data *)
  Definition autofold (model data : lspec) : option lspec :=
    if ls_folded data && negb (ls_folded model) then fold_ls model else Some model.

  Fixpoint ll_terms (lgam : F -> F) (mm dm : list bool) (m d : list F) : F :=
    match mm, dm, m, d with
    | a :: mm', b :: dm', x :: m', y :: d' =>
        (* numpy.ma.log masks model <= 0 *)
        (if a || b || (x <=? n0) then n0 else - x + y * nln x - lgam (y + n1)) + ll_terms lgam mm' dm' m' d'
    | _, _, _, _ => n0
    end.
  Definition ll_ls (lgam : F -> F) (model data : lspec) : option F :=
    match autofold model data with
    | None => None
    | Some m =>
        (* a folded model against unfolded data: the Spectrum arithmetic inside ll_per_bin raises *)
        if Bool.eqb (ls_folded m) (ls_folded data)
        then Some (ll_terms lgam (ls_mask m) (ls_mask data) (ls_data m) (ls_data data))
        else None
    end.

  Fixpoint list_beq (a b : list bool) : bool :=
    match a, b with
    | [], [] => true
    | x :: a', y :: b' => Bool.eqb x y && list_beq a' b'
    | _, _ => false
    end.
  (** Numerics.intersect_masks: identical masks are kept; otherwise both are rebuilt with the joint
      mask by the Spectrum constructor (which masks the corners) *)
  Definition joint_mask (s : list nat) (a b : list bool) : list bool :=
    if list_beq a b then a
    else map2 orb (map2 orb a b) (tabulate s (is_corner s)).
  Definition scale_ls (c : F) (a : lspec) : lspec :=
    {| ls_shape := ls_shape a; ls_folded := ls_folded a; ls_data := map (fun x => c * x) (ls_data a);
       ls_mask := ls_mask a; ls_ids := ls_ids a; ls_ex := ls_ex a |}.
  (** optimal_sfs_scaling: data.sum()/model.sum() over the jointly unmasked entries of the (auto-folded) model *)
  Definition opt_scaling (model data : lspec) : option F :=
    match autofold model data with
    | None => None
    | Some m => let jm := joint_mask (ls_shape data) (ls_mask m) (ls_mask data) in
                Some (msum jm (ls_data data) / msum jm (ls_data m))
    end.
  (** ll_multinom: ll_per_bin(theta_opt*model, data) -- the UNFOLDED model is scaled and folded again *)
  Definition ll_multinom_ls (lgam : F -> F) (model data : lspec) : option F :=
    match opt_scaling model data with
    | None => None
    | Some th => ll_ls lgam (scale_ls th model) data
    end.
End ND.
Arguments lspec F : clear implicits.
Arguments operand F : clear implicits.
Arguments outcome F : clear implicits.
