(** * LowPassSim: simulate_GATK_multisample_calling of dadi/LowPass/LowPass.py as a DETERMINISTIC function
    of explicit random draws (simulate_reads, genotype calling, the enough-calls filter,
    subsample_genotypes_1D, allele counting, numpy.histogramdd, normalisation).

    Executable model only (nat / lists / Q), no proofs.  What the random number generators delivered in a
    run is an argument of the model:

      - per locus, population and individual a pair (d, a): the depth of coverage drawn by
        ss.rv_discrete(...).rvs and, for a heterozygote, the number of alternative reads drawn by
        ss.binom.rvs(d, 0.5) (ignored for homozygotes);
      - per subsampled population (n_subsampling <> n_sequenced) and per locus handed to
        subsample_genotypes_1D, the list [sel] of the POSITIONS (in the sorted row of called genotypes) that
        ended up in the first n_subsampling // 2 columns after the shuffle: an ARBITRARY list as far as the
        model is concerned.  The theorems for every draw only need it to be short enough; the expectation
        theorems average over all n_subsampling // 2 - subsets of the positions (uniform over subsets,
        independently per locus), which is what an independent uniform permutation per locus
        (Generator.permuted(.., axis=1)) delivers.

    The partition structure is kept per population (the code concatenates the per-population partitions
    and splits them again by pop_n_sequenced). *)
From Coq Require Import ZArith QArith Qreduction List Bool Arith.
From Dadi Require Import Model.LowPass.
Import ListNotations.
Local Open Scope nat_scope.

(** ** simulate_reads, one individual: genotype [g] of the partition, drawn depth and het-alt reads -> (n_ref, n_alt).
    n_ref and n_alt are zero-initialised and assigned for g = 0, 1, 2 only. *)
Definition indiv := (nat * nat)%type.
Definition reads (g : nat) (da : indiv) : nat * nat :=
  match g with
  | 0 => (fst da, 0)
  | 1 => (fst da - snd da, snd da)
  | 2 => (0, fst da)
  | _ => (0, 0)
  end.

(** genotype calls: 99 = no call, 0 / 1 / 2 *)
Definition nocall : nat := 99.
Definition gcall (r : nat * nat) : nat :=
  match r with
  | (0, 0) => nocall
  | (S _, 0) => 0
  | (S _, S _) => 1
  | (0, S _) => 2
  end.

Definition pop_reads (pt : list nat) (ds : list indiv) : list (nat * nat) :=
  map (fun p => reads (fst p) (snd p)) (combine pt ds).
(** one locus: per population the reads of its individuals *)
Definition locus_reads (part : list (list nat)) (loc : list (list indiv)) : list (list (nat * nat)) :=
  map (fun p => pop_reads (fst p) (snd p)) (combine part loc).
(** t_alt = numpy.sum(n_alt, axis=1): over the individuals of all populations *)
Definition t_alt (rs : list (list (nat * nat))) : nat := list_sum (map (fun r => list_sum (map snd r)) rs).
Definition locus_calls (rs : list (list (nat * nat))) : list (list nat) := map (map gcall) rs.

(** numpy.sum(genotype_calls != 99, axis=1) *)
Definition ncalled (row : list nat) : nat := length (filter (fun g => negb (g =? nocall)) row).

(** ** subsample_genotypes_1D *)
(** numpy.sort along a row *)
Fixpoint insert_sorted (x : nat) (l : list nat) : list nat :=
  match l with
  | [] => [x]
  | y :: t => if x <=? y then x :: l else y :: insert_sorted x t
  end.
Definition sort_row (l : list nat) : list nat := fold_right insert_sorted [] l.

(** the order in which the loci leave the function: grouped by the number of called individuals
    (numpy.sort(numpy.unique(n_called)), groups below n_subsampling // 2 skipped), original order inside a group.
    [N] = individuals per row, [k] = n_subsampling // 2. *)
Definition reorder (N k : nat) (rows : list (list nat)) : list (list nat) :=
  flat_map (fun c => filter (fun r => ncalled r =? c) rows) (seq k (N + 1 - k)).

(** the genotypes selected from one locus: positions [sel] of the sorted called genotypes *)
Definition sub_row (r : list nat) (sel : list nat) : list nat :=
  let s := firstn (ncalled r) (sort_row r) in
  map (fun i => nth i s 0) sel.

Definition subsample_1D (N k : nat) (rows : list (list nat)) (sels : list (list nat)) : list (list nat) :=
  map (fun p => sub_row (fst p) (snd p)) (combine (reorder N k rows) sels).

(** ** one aggregate partition *)
Record spop := { sp_nseq : nat; sp_nsub : nat }.

Record pdraw := {
  pd_part : list (list nat);            (* per population: the genotype partition *)
  pd_loci : list (list (list indiv));   (* per locus, per population, per individual: (depth, alt reads of a het) *)
  pd_sel : list (list (list nat))       (* per population: per locus reaching subsample_genotypes_1D (in its output order) the chosen positions *)
}.

(** all_enough_calls for one locus *)
Definition enough_calls (pops : list spop) (calls : list (list nat)) : bool :=
  forallb (fun pc => sp_nsub (fst pc) / 2 <=? ncalled (snd pc)) (combine pops calls).

(** called_freqs[:, pop_ii] *)
Definition pop_sums (p : spop) (rows : list (list nat)) (sels : list (list nat)) : list nat :=
  if sp_nsub p =? sp_nseq p then map (@list_sum) rows
  else map (@list_sum) (subsample_1D (sp_nseq p / 2) (sp_nsub p / 2) rows sels).

Fixpoint pops_sums (i : nat) (pops : list spop) (kept : list (list (list nat))) (sels : list (list (list nat))) : list (list nat) :=
  match pops with
  | [] => []
  | p :: pops' => pop_sums p (map (fun c => nth i c []) kept) (nth i sels []) :: pops_sums (S i) pops' kept sels
  end.

(** rows of called_freqs *)
Definition zipn (ss : list (list nat)) (n : nat) : list (list nat) :=
  map (fun i => map (fun s => nth i s 0) ss) (seq 0 n).

(** the loci that survive both filters (polymorphic: t_alt >= 2; enough calls in every population), as genotype calls *)
Definition kept_calls (pops : list spop) (pd : pdraw) : list (list (list nat)) :=
  let rs := map (locus_reads (pd_part pd)) (pd_loci pd) in
  let poly := filter (fun r => 2 <=? t_alt r) rs in
  filter (enough_calls pops) (map locus_calls poly).

(** (number of loci sent to entry 0: not polymorphic or not enough calls, rows of called_freqs) *)
Definition sim_partition (pops : list spop) (pd : pdraw) : nat * list (list nat) :=
  let rs := map (locus_reads (pd_part pd)) (pd_loci pd) in
  let poly := filter (fun r => 2 <=? t_alt r) rs in
  let calls := map locus_calls poly in
  let kept := kept_calls pops pd in
  ((length rs - length poly) + (length calls - length kept),
   zipn (pops_sums 0 pops kept (pd_sel pd)) (length kept)).

(** ** numpy.histogramdd with bins arange(n_subsampling + 2) - 0.5 per axis: C-order flat index; a row with an
    entry outside its axis is dropped *)
Fixpoint flat_index (dims v : list nat) : option nat :=
  match dims, v with
  | [], [] => Some 0
  | n :: dims', x :: v' =>
      if x <? n then match flat_index dims' v' with
                     | Some r => Some (x * fold_right Nat.mul 1 dims' + r)
                     | None => None
                     end
      else None
  | _, _ => None
  end.

Fixpoint bump (i m : nat) (c : list nat) : list nat :=
  match c with
  | [] => []
  | x :: t => match i with 0 => (x + m) :: t | S i' => x :: bump i' m t end
  end.

Definition bump_vec (dims : list nat) (c : list nat) (v : list nat) : list nat :=
  match flat_index dims v with Some i => bump i 1 c | None => c end.

Definition sim_dims (pops : list spop) : list nat := map (fun p => sp_nsub p + 1) pops.
Definition sim_size (pops : list spop) : nat := fold_right Nat.mul 1 (sim_dims pops).

(** the un-normalised spectrum output_freqs after all partitions *)
Definition sim_counts (pops : list spop) (draws : list pdraw) : list nat :=
  fold_left (fun c pd => let r := sim_partition pops pd in
                         fold_left (bump_vec (sim_dims pops)) (snd r) (bump 0 (fst r) c))
            draws (repeat 0 (sim_size pops)).

(** simulate_GATK_multisample_calling: output_freqs / numpy.sum(output_freqs), flat in C order *)
Definition simulate (pops : list spop) (draws : list pdraw) : list Q :=
  let c := sim_counts pops draws in
  let tot := list_sum c in
  map (fun x => Qred (qnat x / qnat tot)%Q) c.

(** ** the subsampling step in expectation *)
(** the derived-allele count of the individuals at positions [sel] of a genotype vector *)
Definition sub_sum (pt : list nat) (sel : list nat) : nat := list_sum (map (fun i => nth i pt 0) sel).

(** one locus with (called = true) genotypes [pt]: the histogram over 0..nsub of the subsampled allele count,
    averaged over ALL nsub/2-subsets of the positions (each subset with the same weight) *)
Definition expected_hist (pt : list nat) (nsub : nat) : list Q :=
  let sums := map (sub_sum pt) (combs (nsub / 2) (seq 0 (length pt))) in
  let tot := qnat (length sums) in
  map (fun j => (qnat (cnt j sums) / tot)%Q) (seq 0 (nsub + 1)).

(** the expectation of a simulated row when the calls are the true genotypes: partitions weighted by their probabilities *)
Definition expected_row (nseq nsub : nat) (F : Q) (j : nat) : list Q :=
  let pts := parts nseq j in
  fold_left (fun acc pp => vadd acc (vscale (snd pp) (expected_hist (fst pp) nsub)))
            (combine pts (part_probs F pts)) (repeat 0%Q (nsub + 1)).

(** all tuples with one element of each list (the joint choices of all loci) *)
Fixpoint tuples {A : Type} (ls : list (list A)) : list (list A) :=
  match ls with
  | [] => [[]]
  | l :: t => flat_map (fun x => map (cons x) (tuples t)) l
  end.

(** the simulated frequency of allele count [j] among loci with true genotype vectors [pts] and choices [sels] *)
Definition freq_of (j : nat) (pts : list (list nat)) (sels : list (list nat)) : Q :=
  (qnat (cnt j (map (fun p => sub_sum (fst p) (snd p)) (combine pts sels))) / qnat (length pts))%Q.

(** its average over all joint choices: every locus chooses nsub/2 of its positions, independently and uniformly over subsets *)
Definition mean_freq (j nsub : nat) (pts : list (list nat)) : Q :=
  let omega := tuples (map (fun pt => combs (nsub / 2) (seq 0 (length pt))) pts) in
  (qsum (map (freq_of j pts) omega) / qnat (length omega))%Q.
