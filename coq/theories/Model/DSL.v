(** * DSL: the library model functions of dadi as programs of a small instruction language (C15).

    The fail-closed translator harness/translate/models_dsl.py turns every model function exposing
    [__param_names__] (Demographics1D/2D/3D, PortikModels, DFE/DemogSelModels) into a [prog].
    This file: syntax, parameter substitution, an expression simplifier with exact rules only, the program
    normaliser, the well-formedness check [params_match_names], population relabelling, boolean equalities,
    and the semantics over an abstract numerical layer (Section variables).  Definitions only; the proofs
    are in Proofs/DSLProofs.v. *)
From Coq Require Import QArith Qreals List Bool Arith Reals.
Import ListNotations.
Local Open Scope bool_scope.

(** ** Expressions.  [Var i] = i-th entry of the parameter vector, [TVar] = the time argument of a
    [nu_func]; Python's [x ** y] is [Pow] (positive bases only occur: size ratios). *)
Inductive expr :=
| Var (i : nat) | TVar | Const (q : Q)
| Add (a b : expr) | Sub (a b : expr) | Mul (a b : expr) | Div (a b : expr)
| Neg (a : expr) | Exp (a : expr) | Log (a : expr) | Pow (a b : expr).

Fixpoint expr_eqb (a b : expr) : bool :=
  match a, b with
  | Var i, Var j => Nat.eqb i j
  | TVar, TVar => true
  | Const x, Const y => Qeq_bool x y
  | Add a1 a2, Add b1 b2 | Sub a1 a2, Sub b1 b2 | Mul a1 a2, Mul b1 b2
  | Div a1 a2, Div b1 b2 | Pow a1 a2, Pow b1 b2 => expr_eqb a1 b1 && expr_eqb a2 b2
  | Neg a1, Neg b1 | Exp a1, Exp b1 | Log a1, Log b1 => expr_eqb a1 b1
  | _, _ => false
  end.

Fixpoint eval (e : expr) (env : nat -> R) (t : R) : R :=
  match e with
  | Var i => env i
  | TVar => t
  | Const q => Q2R q
  | Add a b => eval a env t + eval b env t
  | Sub a b => eval a env t - eval b env t
  | Mul a b => eval a env t * eval b env t
  | Div a b => eval a env t / eval b env t
  | Neg a => - eval a env t
  | Exp a => exp (eval a env t)
  | Log a => ln (eval a env t)
  | Pow a b => Rpower (eval a env t) (eval b env t)
  end%R.

(** time-independent expressions *)
Fixpoint tfreeb (e : expr) : bool :=
  match e with
  | Var _ | Const _ => true
  | TVar => false
  | Add a b | Sub a b | Mul a b | Div a b | Pow a b => tfreeb a && tfreeb b
  | Neg a | Exp a | Log a => tfreeb a
  end.

Fixpoint vars (e : expr) : list nat :=
  match e with
  | Var i => [i]
  | TVar | Const _ => []
  | Add a b | Sub a b | Mul a b | Div a b | Pow a b => vars a ++ vars b
  | Neg a | Exp a | Log a => vars a
  end.

(** substitution of the parameters: [Var i] becomes the i-th entry of [sg] *)
Fixpoint subst (sg : list expr) (e : expr) : expr :=
  match e with
  | Var i => nth i sg (Const 0)
  | TVar => TVar
  | Const q => Const q
  | Add a b => Add (subst sg a) (subst sg b)
  | Sub a b => Sub (subst sg a) (subst sg b)
  | Mul a b => Mul (subst sg a) (subst sg b)
  | Div a b => Div (subst sg a) (subst sg b)
  | Neg a => Neg (subst sg a)
  | Exp a => Exp (subst sg a)
  | Log a => Log (subst sg a)
  | Pow a b => Pow (subst sg a) (subst sg b)
  end.

(** ** Side conditions: which parameters are known to be > 0, >= 0, in (0,1) (the documented bounds) *)
Record assum := { a_pos : list nat; a_nonneg : list nat; a_frac : list nat }.
Definition mem (i : nat) (l : list nat) : bool := existsb (Nat.eqb i) l.

Definition env_ok (A : assum) (env : nat -> R) : Prop :=
  (forall i, In i (a_pos A) -> 0 < env i)%R /\
  (forall i, In i (a_nonneg A) -> 0 <= env i)%R /\
  (forall i, In i (a_frac A) -> 0 < env i < 1)%R.

Definition as_const (e : expr) : option Q := match e with Const q => Some q | _ => None end.
Definition is_c (e : expr) (q : Q) : bool := match as_const e with Some c => Qeq_bool c q | None => false end.

(** conservative syntactic positivity / non-negativity *)
Fixpoint is_pos (A : assum) (e : expr) : bool :=
  match e with
  | Var i => mem i (a_pos A) || mem i (a_frac A)
  | Const q => negb (Qle_bool q 0)
  | Add a b | Mul a b | Div a b => is_pos A a && is_pos A b
  | Sub a b => match b with Var i => is_c a 1 && mem i (a_frac A) | _ => false end
  | Exp _ => true
  | Pow _ _ => true
  | _ => false
  end.
Fixpoint is_nonneg (A : assum) (e : expr) : bool :=
  is_pos A e ||
  match e with
  | Var i => mem i (a_nonneg A)
  | Const q => Qle_bool 0 q
  | Add a b | Mul a b => is_nonneg A a && is_nonneg A b
  | _ => false
  end.

(** ** Simplifier: smart constructors with exact rules only (every rule is an identity of real numbers,
    under [env_ok] where a positivity side condition is consulted). *)
Definition mkAdd (a b : expr) : expr :=
  match as_const a, as_const b with
  | Some x, Some y => Const (Qred (x + y))
  | Some x, None => if Qeq_bool x 0 then b else Add a b
  | None, Some y => if Qeq_bool y 0 then a else Add a b
  | None, None => Add a b
  end.
(* 1 - (1 - x) *)
Definition one_minus_arg (e : expr) : option expr :=
  match e with Sub c x => if is_c c 1 then Some x else None | _ => None end.
(* (r + b) - b = r, (b + r) - b = r  (e.g. a split time written as T + D, minus T) *)
Definition add_cancel (a b : expr) : option expr :=
  match a with
  | Add a1 a2 => if expr_eqb a2 b then Some a1 else if expr_eqb a1 b then Some a2 else None
  | _ => None
  end.
Definition mkSub (a b : expr) : expr :=
  match as_const a, as_const b with
  | Some x, Some y => Const (Qred (x - y))
  | _, Some y => if Qeq_bool y 0 then a else Sub a b
  | ca, None =>
      if expr_eqb a b then Const 0 else
      match ca, one_minus_arg b with
      | Some x, Some e => if Qeq_bool x 1 then e else Sub a b
      | _, _ => match add_cancel a b with Some r => r | None => Sub a b end
      end
  end.
Definition mkMul (a b : expr) : expr :=
  match as_const a, as_const b with
  | Some x, Some y => Const (Qred (x * y))
  | Some x, None => if Qeq_bool x 0 then Const 0 else if Qeq_bool x 1 then b else Mul a b
  | None, Some y => if Qeq_bool y 0 then Const 0 else if Qeq_bool y 1 then a else Mul a b
  | None, None => Mul a b
  end.
Definition mkDiv (A : assum) (a b : expr) : expr :=
  match as_const a, as_const b with
  | Some x, Some y => if Qeq_bool y 0 then Div a b else Const (Qred (x / y))
  | Some x, None => if Qeq_bool x 0 then Const 0 else Div a b
  | None, Some y => if Qeq_bool y 1 then a else Div a b
  | None, None => if expr_eqb a b && is_pos A a then Const 1 else Div a b
  end.
Definition mkNeg (a : expr) : expr :=
  match as_const a with Some x => Const (Qred (- x)) | None => Neg a end.
Definition mkExp (A : assum) (a : expr) : expr :=
  if is_c a 0 then Const 1 else
  match a with Log x => if is_pos A x then x else Exp a | _ => Exp a end.
Definition mkLog (a : expr) : expr := if is_c a 1 then Const 0 else Log a.
Definition mkPow (A : assum) (a b : expr) : expr :=
  if is_c a 1 then Const 1 else if is_c b 0 then Const 1 else
  if is_c b 1 && is_pos A a then a else Pow a b.

Fixpoint simp (A : assum) (e : expr) : expr :=
  match e with
  | Var i => Var i
  | TVar => TVar
  | Const q => Const (Qred q)
  | Add a b => mkAdd (simp A a) (simp A b)
  | Sub a b => mkSub (simp A a) (simp A b)
  | Mul a b => mkMul (simp A a) (simp A b)
  | Div a b => mkDiv A (simp A a) (simp A b)
  | Neg a => mkNeg (simp A a)
  | Exp a => mkExp A (simp A a)
  | Log a => mkLog (simp A a)
  | Pow a b => mkPow A (simp A a) (simp A b)
  end.

(** ** Instructions and programs *)
Inductive instr :=
| IGrid                                                   (* xx = Numerics.default_grid(pts) *)
| IPhi1D (nu theta0 gamma h beta : expr)                  (* PhiManip.phi_1D(xx, nu, theta0, gamma, h, beta=beta) *)
| ISplit (d parent : nat)                                 (* d -> d+1 populations, the new one (last axis) copies [parent] *)
| IAdmixNew (d : nat) (fs : list expr)                    (* phi_2D_to_3D_admix(phi, f, ...) : new last population by admixture *)
| IPulse (d : nat) (srcs : list nat) (dst : nat) (fs : list expr)   (* phi_2D_admix_1_into_2 = IPulse 2 [0] 1 [f] *)
| IIntegrate (T : expr) (nus : list expr) (ms : list (list expr)) (gammas hs : list expr)
             (theta0 beta : expr) (frozen nomut : list bool)   (* ms i j = migration INTO i FROM j; diagonal 0 *)
| IRemove (k : nat)
| IReorder (perm : list nat)
| IFromPhi (d : nat)
| IFromPhiInb (d : nat) (Fs ploidy : list expr)
| IMsCmd (es : list expr).                                (* the *_mscore helpers: a command string built from these values *)

(** a program: straight-line code; an [if a >= b] carries the whole continuation in both branches *)
Inductive prog :=
| Done
| Step (i : instr) (rest : prog)
| IfGe (a b : expr) (p1 p2 : prog).

Definition map_instr (f : expr -> expr) (i : instr) : instr :=
  match i with
  | IGrid => IGrid
  | IPhi1D nu th g h be => IPhi1D (f nu) (f th) (f g) (f h) (f be)
  | ISplit d p => ISplit d p
  | IAdmixNew d fs => IAdmixNew d (map f fs)
  | IPulse d s t fs => IPulse d s t (map f fs)
  | IIntegrate T nus ms gs hs th be fr nm =>
      IIntegrate (f T) (map f nus) (map (map f) ms) (map f gs) (map f hs) (f th) (f be) fr nm
  | IRemove k => IRemove k
  | IReorder p => IReorder p
  | IFromPhi d => IFromPhi d
  | IFromPhiInb d Fs pl => IFromPhiInb d (map f Fs) (map f pl)
  | IMsCmd es => IMsCmd (map f es)
  end.
Fixpoint map_prog (f : expr -> expr) (p : prog) : prog :=
  match p with
  | Done => Done
  | Step i r => Step (map_instr f i) (map_prog f r)
  | IfGe a b p1 p2 => IfGe (f a) (f b) (map_prog f p1) (map_prog f p2)
  end.
Definition subst_prog (sg : list expr) : prog -> prog := map_prog (subst sg).

Definition exprs_of (i : instr) : list expr :=
  match i with
  | IGrid | ISplit _ _ | IRemove _ | IReorder _ | IFromPhi _ => []
  | IPhi1D nu th g h be => [nu; th; g; h; be]
  | IAdmixNew _ fs | IPulse _ _ _ fs | IMsCmd fs => fs
  | IIntegrate T nus ms gs hs th be _ _ => T :: nus ++ concat ms ++ gs ++ hs ++ [th; be]
  | IFromPhiInb _ Fs pl => Fs ++ pl
  end.
Fixpoint vars_prog (p : prog) : list nat :=
  match p with
  | Done => []
  | Step i r => flat_map vars (exprs_of i) ++ vars_prog r
  | IfGe a b p1 p2 => vars a ++ vars b ++ vars_prog p1 ++ vars_prog p2
  end.

(** ** Well-formedness: the unpacking binds exactly indices 0..n-1 (n = number of declared names),
    every parameter is used by the program, no other index is. *)
Definition params_match_names (n : nat) (unpacked : list nat) (p : prog) : bool :=
  Nat.eqb (length unpacked) n &&
  forallb (fun pr => Nat.eqb (fst pr) (snd pr)) (combine unpacked (seq 0 n)) &&
  forallb (fun i => mem i (vars_prog p)) (seq 0 n) &&
  forallb (fun i => Nat.ltb i n) (vars_prog p).

(** scalar positions must not mention the time variable (only nus, ms, gammas, hs, theta0, beta of an
    integration may) *)
Definition scalar_exprs_of (i : instr) : list expr :=
  match i with
  | IIntegrate T _ _ _ _ _ _ _ _ => [T]
  | _ => exprs_of i
  end.
Fixpoint scalars_tfree (p : prog) : bool :=
  match p with
  | Done => true
  | Step i r => forallb tfreeb (scalar_exprs_of i) && scalars_tfree r
  | IfGe a b p1 p2 => tfreeb a && tfreeb b && scalars_tfree p1 && scalars_tfree p2
  end.

(** ** Normaliser *)
Definition is_identity (i : instr) : bool :=
  match i with
  | IIntegrate T _ _ _ _ _ _ _ _ => is_c T 0        (* zero-duration integration returns phi unchanged *)
  | IPulse _ _ _ fs => forallb (fun f => is_c f 0) fs   (* a pulse of proportion 0 *)
  | _ => false
  end.
(* x < y for syntactic reasons: 0 < a positive expression; x < x + (a positive expression) *)
Definition is_lt (A : assum) (x y : expr) : bool :=
  (is_c x 0 && is_pos A y) ||
  match y with
  | Add y1 y2 => (expr_eqb x y1 && is_pos A y2) || (expr_eqb x y2 && is_pos A y1)
  | _ => false
  end.
Definition decide_ge (A : assum) (x y : expr) : option bool :=     (* x >= y ? *)
  match as_const x, as_const y with
  | Some a, Some b => Some (Qle_bool b a)
  | _, _ => if expr_eqb x y then Some true
            else if is_c y 0 && is_nonneg A x then Some true
            else if is_lt A x y then Some false
            else None
  end.
(** a third population created by admixture DIRECTLY after the first split (nothing in between: a zero-length first
    epoch has been dropped): phi_1D_to_2D leaves a density concentrated on the diagonal x = y, where the ad-mixed
    frequency f x + (1 - f) y is x whatever f, so phi_2D_to_3D_admix(phi, f, ...) is phi_2D_to_3D_split_2(xx, phi)
    (= phi_2D_to_3D_admix(phi, 0, ...)): the admixed origin degenerates to a simultaneous three-way split *)
Definition fuse (i : instr) (r : prog) : prog :=
  match i, r with
  | ISplit d p, Step (IAdmixNew d' (_ :: nil)) r' =>
      if Nat.eqb d 1 && Nat.eqb p 0 && Nat.eqb d' 2 then Step i (Step (ISplit 2 1) r') else Step i r
  | _, _ => Step i r
  end.
Fixpoint norm (A : assum) (p : prog) : prog :=
  match p with
  | Done => Done
  | Step i r => let i' := map_instr (simp A) i in
                if is_identity i' then norm A r else fuse i' (norm A r)
  | IfGe a b p1 p2 =>
      let a' := simp A a in let b' := simp A b in
      match decide_ge A a' b' with
      | Some true => norm A p1
      | Some false => norm A p2
      | None => IfGe a' b' (norm A p1) (norm A p2)
      end
  end.

(** ** Boolean equality of programs (constants compared as rationals) *)
Fixpoint list_eqb {X} (eqb : X -> X -> bool) (l1 l2 : list X) : bool :=
  match l1, l2 with
  | [], [] => true
  | x :: t1, y :: t2 => eqb x y && list_eqb eqb t1 t2
  | _, _ => false
  end.
Definition instr_eqb (i j : instr) : bool :=
  match i, j with
  | IGrid, IGrid => true
  | IPhi1D a b c d e, IPhi1D a' b' c' d' e' =>
      expr_eqb a a' && expr_eqb b b' && expr_eqb c c' && expr_eqb d d' && expr_eqb e e'
  | ISplit d p, ISplit d' p' => Nat.eqb d d' && Nat.eqb p p'
  | IAdmixNew d fs, IAdmixNew d' fs' => Nat.eqb d d' && list_eqb expr_eqb fs fs'
  | IPulse d s t fs, IPulse d' s' t' fs' =>
      Nat.eqb d d' && list_eqb Nat.eqb s s' && Nat.eqb t t' && list_eqb expr_eqb fs fs'
  | IIntegrate T nus ms gs hs th be fr nm, IIntegrate T' nus' ms' gs' hs' th' be' fr' nm' =>
      expr_eqb T T' && list_eqb expr_eqb nus nus' && list_eqb (list_eqb expr_eqb) ms ms' &&
      list_eqb expr_eqb gs gs' && list_eqb expr_eqb hs hs' && expr_eqb th th' && expr_eqb be be' &&
      list_eqb Bool.eqb fr fr' && list_eqb Bool.eqb nm nm'
  | IRemove k, IRemove k' => Nat.eqb k k'
  | IReorder p, IReorder p' => list_eqb Nat.eqb p p'
  | IFromPhi d, IFromPhi d' => Nat.eqb d d'
  | IFromPhiInb d Fs pl, IFromPhiInb d' Fs' pl' => Nat.eqb d d' && list_eqb expr_eqb Fs Fs' && list_eqb expr_eqb pl pl'
  | IMsCmd es, IMsCmd es' => list_eqb expr_eqb es es'
  | _, _ => false
  end.
Fixpoint prog_eqb (p q : prog) : bool :=
  match p, q with
  | Done, Done => true
  | Step i r, Step j s => instr_eqb i j && prog_eqb r s
  | IfGe a b p1 p2, IfGe a' b' q1 q2 => expr_eqb a a' && expr_eqb b b' && prog_eqb p1 q1 && prog_eqb p2 q2
  | _, _ => false
  end.

(** the per-run nesting obligation: the complex model at the nesting point normalises to the simple model *)
Definition nests (A : assum) (sg : list expr) (complex simple : prog) : bool :=
  forallb tfreeb sg && scalars_tfree complex &&
  prog_eqb (norm A (subst_prog sg complex)) (norm A simple).

(** two-sided nesting: BOTH models are instantiated, [sgc] / [sgs] write the parameters of the complex / the simple
    model over a common parameter vector (whose side conditions are [A]); e.g. bottlegrowth_split_mig_sel at T = 0
    against split_mig_sel at nu1 = nu2 = 1.  [nests A sg c s] is the case where [sgs] is the identity. *)
Definition nests2 (A : assum) (sgc sgs : list expr) (complex simple : prog) : bool :=
  forallb tfreeb sgc && forallb tfreeb sgs && scalars_tfree complex && scalars_tfree simple &&
  prog_eqb (norm A (subst_prog sgc complex)) (norm A (subst_prog sgs simple)).

(** ** Relabelling the populations: [pm d] is the permutation used while the density has d populations
    (new axis i carries old population [nth i (pm d)]). *)
Definition permute {X} (dflt : X) (pi : list nat) (l : list X) : list X := map (fun i => nth i l dflt) pi.
Fixpoint index_of (k : nat) (l : list nat) : nat :=
  match l with [] => 0 | x :: t => if Nat.eqb x k then 0 else S (index_of k t) end.
Definition is_perm_of (d : nat) (pi : list nat) : bool :=
  Nat.eqb (length pi) d && forallb (fun k => mem k pi) (seq 0 d).
Definition relabel_instr (pm : nat -> list nat) (i : instr) : instr :=
  match i with
  | ISplit d parent => ISplit d (index_of parent (pm d))
  | IPulse d srcs dst fs =>
      let pi := pm d in IPulse d (map (fun s => index_of s pi) srcs) (index_of dst pi) fs
  | IIntegrate T nus ms gs hs th be fr nm =>
      let pi := pm (length nus) in
      IIntegrate T (permute (Const 0) pi nus) (permute [] pi (map (permute (Const 0) pi) ms))
                 (permute (Const 0) pi gs) (permute (Const 0) pi hs) th be
                 (permute false pi fr) (permute false pi nm)
  | _ => i
  end.
(** which relabellings are meaningful: a permutation at every dimension met; where a population splits
    (the child is always the new last axis and an exact copy of its parent) the labelling of the d+1
    populations extends that of the d old ones, possibly with parent and child exchanged; populations
    created by admixture, removed, reordered or sampled with inbreeding are not relabelled (not needed
    for the library models) *)
Definition swap_vals (x y : nat) (l : list nat) : list nat :=
  map (fun k => if Nat.eqb k x then y else if Nat.eqb k y then x else k) l.
Definition relabel_ok_instr (pm : nat -> list nat) (i : instr) : bool :=
  match i with
  | IGrid | IPhi1D _ _ _ _ _ | IFromPhi _ | IMsCmd _ => true
  | ISplit d parent =>
      is_perm_of d (pm d) && is_perm_of (S d) (pm (S d)) &&
      (list_eqb Nat.eqb (pm (S d)) (pm d ++ [d]) || list_eqb Nat.eqb (pm (S d)) (swap_vals parent d (pm d ++ [d])))
  | IPulse d _ _ _ => is_perm_of d (pm d)
  | IIntegrate _ nus _ _ _ _ _ _ _ => is_perm_of (length nus) (pm (length nus))
  | _ => false
  end.
Fixpoint relabel (pm : nat -> list nat) (p : prog) : prog :=
  match p with
  | Done => Done
  | Step i r => Step (relabel_instr pm i) (relabel pm r)
  | IfGe a b p1 p2 => IfGe a b (relabel pm p1) (relabel pm p2)
  end.
Fixpoint relabel_ok (pm : nat -> list nat) (p : prog) : bool :=
  match p with
  | Done => true
  | Step i r => relabel_ok_instr pm i && relabel_ok pm r
  | IfGe _ _ p1 p2 => relabel_ok pm p1 && relabel_ok pm p2
  end.
(** per-run obligation for a symmetric model: relabelling the populations of the program with the
    parameters exchanged by [sg] gives back the program *)
Definition equivariant (A : assum) (pm : nat -> list nat) (sg : list expr) (p : prog) : bool :=
  forallb tfreeb sg && scalars_tfree p && relabel_ok pm p &&
  prog_eqb (norm A (relabel pm (subst_prog sg p))) (norm A p).

(** ** Semantics over an abstract numerical layer *)
Section Sem.
  Variable St : Type.
  Variable o_grid : St -> St.
  Variable o_phi1d : R -> R -> R -> R -> R -> St -> St.
  Variable o_split : nat -> nat -> St -> St.
  Variable o_admixnew : nat -> list R -> St -> St.
  Variable o_pulse : nat -> list nat -> nat -> list R -> St -> St.
  Variable o_integrate : R -> list (R -> R) -> list (list (R -> R)) -> list (R -> R) -> list (R -> R) ->
                         (R -> R) -> (R -> R) -> list bool -> list bool -> St -> St.
  Variable o_remove : nat -> St -> St.
  Variable o_reorder : list nat -> St -> St.
  Variable o_fromphi : nat -> St -> St.
  Variable o_fromphi_inb : nat -> list R -> list R -> St -> St.
  Variable o_mscmd : list R -> St -> St.

  Definition ev0 (env : nat -> R) (e : expr) : R := eval e env 0%R.
  Definition evf (env : nat -> R) (e : expr) : R -> R := fun t => eval e env t.

  Definition sem_instr (i : instr) (env : nat -> R) : St -> St :=
    match i with
    | IGrid => o_grid
    | IPhi1D nu th g h be => o_phi1d (ev0 env nu) (ev0 env th) (ev0 env g) (ev0 env h) (ev0 env be)
    | ISplit d p => o_split d p
    | IAdmixNew d fs => o_admixnew d (map (ev0 env) fs)
    | IPulse d s t fs => o_pulse d s t (map (ev0 env) fs)
    | IIntegrate T nus ms gs hs th be fr nm =>
        o_integrate (ev0 env T) (map (evf env) nus) (map (map (evf env)) ms) (map (evf env) gs) (map (evf env) hs)
                    (evf env th) (evf env be) fr nm
    | IRemove k => o_remove k
    | IReorder p => o_reorder p
    | IFromPhi d => o_fromphi d
    | IFromPhiInb d Fs pl => o_fromphi_inb d (map (ev0 env) Fs) (map (ev0 env) pl)
    | IMsCmd es => o_mscmd (map (ev0 env) es)
    end.

  Fixpoint sem (p : prog) (env : nat -> R) (s : St) : St :=
    match p with
    | Done => s
    | Step i r => sem r env (sem_instr i env s)
    | IfGe a b p1 p2 => if Rle_dec (ev0 env b) (ev0 env a) then sem p1 env s else sem p2 env s
    end.
End Sem.
