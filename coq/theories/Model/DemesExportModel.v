(** * DemesExportModel: executable model of the exporter dadi.Demes.output (dadi/Demes/__init__.py).

    Input: the event log ([Demes.cache]) of a native program, as [output] sees it: an [Initiation] (phi_1D, with the
    size nu) followed by *rounds*; a round is at most one zero-duration record ([Split] with its proportions, [Pulse]
    with its zero-filtered sources / proportions, [Remove], [Reorder]; none: [SNone]) followed by one [Integration]
    record (duration, per population start size / end size / the flag computed by [check_linear], migration rates in
    the order m12, m13, ..., m21, ...; [r_const]: IntegrationConst, every argument was a number).
    Output: the RESOLVED graph in the record type the importer model (DemesFront) consumes, and the discrete events
    `demes` reports for it.  What `demes` does between the Builder data [output] fills in and the resolved graph
    (epoch start times, end_size / size_function defaults, classification of the events) is an ORACLE: the model
    writes down the result; the correspondence check compares it with the real [output] + `demes` on generated logs.

    Copy of the code:
      * end times accumulated from the present ([older.end_time = younger.end_time + younger.duration]): [total];
      * names: a new era (every deme renamed) when an integration follows an integration / the initiation ([SNone]),
        one new name for the population a [Split] appends, names deleted / permuted by [Remove] / [Reorder], kept
        otherwise.  A name is modelled by its rank in [all_demes] (order of first appearance), which is the order in
        which the names are created: the k-th name created is the number k;
      * per deme: one epoch per Initiation / Integration record that lists it (end time, start size, and for
        IntegrationNonConst the end size and 'linear' when [check_linear] says so - `demes` resolves a missing
        size_function to 'exponential', or 'constant' when the two sizes are equal); start time and ancestors from the
        record in which the name first appears (integration: the deme at the same position; split: the populations
        with a non-zero proportion for the appended deme);
      * migrations: one asymmetric entry per non-zero rate of every Integration record, over that record's window;
      * pulses: one per [Pulse] record with a non-empty source list;
      * scaling: times x 2 Nref (x generation_time), sizes x Nref, rates / (2 Nref).
    [native_calls]: the log read back as the sequence of calls that recorded it (axes labelled with the generated
    names).  No proofs here. *)
From Coq Require Import ZArith List Bool Arith.
From Dadi Require Import Base.Num Model.DemesFront.
Import ListNotations.

Section ExportModel.
  Context {F : Type} `{Num F}.
  Local Open Scope num_scope.
  Local Notation time := (DemesFront.time F).
  Local Notation epoch := (DemesFront.epoch F).
  Local Notation deme := (DemesFront.deme F).
  Local Notation mig := (DemesFront.mig F).
  Local Notation pulse := (DemesFront.pulse F).
  Local Notation graph := (DemesFront.graph F).
  Local Notation tevent := (DemesFront.tevent F).
  Local Notation call := (DemesFront.call F).

  (** ** the event log *)
  Inductive sev :=
  | SNone
  | SSplit (props : list F)                               (* Split(proportions): one entry per population before it *)
  | SPulse (srcs : list nat) (dst : nat) (props : list F) (* Pulse: sources / dest from 1, zero proportions filtered *)
  | SRemove (k : nat)                                     (* Remove(removed = k), from 1 *)
  | SReorder (ord : list nat).                            (* Reorder(neworder), from 1 *)

  Record round := mkRound { r_ev : sev; r_T : F; r_const : bool; r_sizes : list (F * F * bool); r_mig : list F }.
  Record elog := mkLog { l_nu : F; l_rounds : list round }.

  (** end time of the record that precedes the rounds [rs] *)
  Fixpoint total (rs : list round) : F :=
    match rs with [] => n0 | r :: rs' => total rs' + r_T r end.
  Fixpoint timed (rs : list round) : list (round * F) :=
    match rs with [] => [] | r :: rs' => (r, total rs') :: timed rs' end.

  (** what a population's epoch looks like after resolution *)
  Definition xkind (const : bool) (s : F * F * bool) : sfun :=
    if const then SConstant else if snd s then SLinear else if fst (fst s) =? snd (fst s) then SConstant else SExponential.
  Definition xsize (const : bool) (s : F * F * bool) : F * F * sfun :=
    (fst (fst s), if const then fst (fst s) else snd (fst s), xkind const s).

  (** ** pass 1: names and times.  One [stage] per Initiation / Integration record. *)
  Record stage := mkStage { sg_a : time; sg_b : F; sg_ids : list nat; sg_sizes : list (F * F * sfun); sg_mig : list F }.
  Record birth := mkBirth { b_start : time; b_anc : list nat }.

  Definition nz_idx (props : list F) : list nat :=
    filter (fun i => negb (nth i props n0 =? n0)) (seq 0 (length props)).
  Definition nth1 (k : nat) (ids : list nat) : nat := nth (k - 1)%nat ids 0%nat.

  Definition ev_ids (next : nat) (ids : list nat) (e : sev) : list nat :=
    match e with
    | SNone => seq next (length ids)
    | SSplit _ => ids ++ [next]
    | SPulse _ _ _ => ids
    | SRemove k => remove_nth (k - 1)%nat ids
    | SReorder ord => map (fun k => nth1 k ids) ord
    end.
  Definition ev_next (next : nat) (ids : list nat) (e : sev) : nat :=
    match e with SNone => (next + length ids)%nat | SSplit _ => S next | _ => next end.
  Definition ev_births (now : F) (ids : list nat) (e : sev) : list birth :=
    match e with
    | SNone => map (fun p => mkBirth (Fin now) [p]) ids
    | SSplit props => [mkBirth (Fin now) (map (fun i => nth i ids 0%nat) (nz_idx props))]
    | _ => []
    end.
  Definition ev_pulses (now : F) (ids : list nat) (e : sev) : list pulse :=
    match e with
    | SPulse srcs dst props => [mkPulse (map (fun k => nth1 k ids) srcs) (nth1 dst ids) now props]
    | _ => []
    end.
  (** the discrete events `demes` reports: a single ancestor that lives on: branch; that ends there: split;
      several ancestors that live on: admixture *)
  Definition ev_events (now : F) (next : nat) (ids : list nat) (e : sev) : list tevent :=
    match e with
    | SNone => map (fun pc => (now, ESplit (fst pc) [snd pc])) (combine ids (seq next (length ids)))
    | SSplit props =>
      let nz := nz_idx props in
      let parents := map (fun i => nth i ids 0%nat) nz in
      [(now, match parents with
             | [p] => EBranch p next
             | _ => EAdmix parents (map (fun i => nth i props n0) nz) next
             end)]
    | SPulse srcs dst props => [(now, EPulse (map (fun k => nth1 k ids) srcs) (nth1 dst ids) props)]
    | _ => []
    end.

  (** the calls that recorded the round (axes labelled with the names) *)
  Definition admix_calls (d : nat) (props : list F) (new_ids : list nat) : list call :=
    match d with
    | 2 => [simple_call F_2D_to_3D_admix (firstn 1 props) [] new_ids]
    | 3 => [simple_call F_3D_to_4D (firstn 2 props) [] new_ids]
    | 4 => [simple_call F_4D_to_5D (firstn 3 props) [] new_ids]
    | _ => []
    end.
  (** a pulse function takes one proportion per population other than the destination, in the order of the axes *)
  Definition pulse_args (d : nat) (srcs : list nat) (dst : nat) (props : list F) : list F :=
    match d with
    | 2 => firstn 1 props
    | _ => sorted_props props (map pred srcs) (Some (dst - 1)%nat) d
    end.
  Definition ev_calls (next : nat) (ids : list nat) (e : sev) : list call :=
    let d := length ids in
    match e with
    | SNone => []
    | SSplit props =>
      match nz_idx props with
      | [i] => split_calls d i (ids ++ [next])
      | _ => admix_calls d props (ids ++ [next])
      end
    | SPulse srcs dst props =>
      if Nat.leb 2 d && Nat.leb d 5 then [simple_call (F_pulse d dst) (pulse_args d srcs dst props) [] []] else []
    | SRemove k => [simple_call F_remove_pop [] [k] []]
    | SReorder ord => [simple_call F_reorder_pops [] ord []]
    end.
  Definition integ_call (ids : list nat) (r : round) : list call :=
    match int_fname (length ids) with
    | Some f => [mkCall f (r_T r) (make_nu_func (map (xsize (r_const r)) (r_sizes r)) (r_T r) n1) (r_mig r)
                        (repeat false (length ids)) [] ids]
    | None => []
    end.

  Record arnd := mkAr { ar_ev : sev; ar_stage : stage; ar_births : list birth; ar_pulses : list pulse;
                        ar_evs : list tevent; ar_next : nat; ar_calls : list call }.

  Definition annotate (next : nat) (ids : list nat) (rb : round * F) : arnd :=
    let r := fst rb in let b := snd rb in
    let now := b + r_T r in
    let e := r_ev r in
    let ids' := ev_ids next ids e in
    mkAr e (mkStage (Fin now) b ids' (map (xsize (r_const r)) (r_sizes r)) (r_mig r))
         (ev_births now ids e) (ev_pulses now ids e) (ev_events now next ids e) (ev_next next ids e)
         (ev_calls next ids e ++ integ_call ids' r).

  Fixpoint scan (next : nat) (ids : list nat) (l : list (round * F)) : list arnd :=
    match l with
    | [] => []
    | rb :: l' => let ar := annotate next ids rb in ar :: scan (ar_next ar) (sg_ids (ar_stage ar)) l'
    end.

  (** the Initiation record as round 0 *)
  Definition init_ar (lg : elog) : arnd :=
    mkAr SNone (mkStage Inf (total (l_rounds lg)) [0] [(l_nu lg, l_nu lg, SConstant)] []) [mkBirth Inf []] [] [] 1
         [simple_call F_phi_1D [l_nu lg] [] [0]].
  Definition annotated (lg : elog) : list arnd := init_ar lg :: scan 1 [0] (timed (l_rounds lg)).

  Definition final_ids (lg : elog) : list nat := sg_ids (ar_stage (last (annotated lg) (init_ar lg))).
  Definition native_calls (lg : elog) : list call := flat_map ar_calls (annotated lg).

  (** ** pass 2: the graph (times in dadi units, sizes relative, rates 2 N m) *)
  Definition stage_epoch (id : nat) (sg : stage) : list epoch :=
    match index_of id (sg_ids sg) with
    | Some j => let s := nth j (sg_sizes sg) (n1, n1, SConstant) in
                [mkEpoch (sg_a sg) (sg_b sg) (fst (fst s)) (snd (fst s)) (snd s)]
    | None => []
    end.
  Definition epochs_of (id : nat) (stages : list stage) : list epoch := flat_map (stage_epoch id) stages.

  Definition stage_migs (sg : stage) : list mig :=
    flat_map (fun abm => if snd abm =? n0 then []
                         else [mkMig (nth (snd (fst abm)) (sg_ids sg) 0%nat) (nth (fst (fst abm)) (sg_ids sg) 0%nat)
                                     (sg_a sg) (sg_b sg) (snd abm)])
             (combine (offdiag (length (sg_ids sg))) (sg_mig sg)).

  Definition mk_demes (stages : list stage) (births : list birth) : list deme :=
    map (fun ib => mkDeme (fst ib) (b_start (snd ib)) (b_anc (snd ib)) (epochs_of (fst ib) stages))
        (combine (seq 0 (length births)) births).

  Definition raw_graph_of (ann : list arnd) : graph :=
    let stages := map ar_stage ann in
    mkGraph (mk_demes stages (flat_map ar_births ann)) (flat_map stage_migs stages) (flat_map ar_pulses ann).
  Definition raw_graph (lg : elog) : graph := raw_graph_of (annotated lg).

  (** the events in the order in which the importer collects them: pulses, branches, (mergers,) admixtures, splits *)
  Definition ev_kind (te : tevent) : nat :=
    match snd te with EPulse _ _ _ => 0 | EBranch _ _ => 1 | EMerge _ _ _ => 2 | EAdmix _ _ _ => 3 | ESplit _ _ => 4
                    | EMarg _ => 5 end.
  Definition raw_events_of (ann : list arnd) : list tevent :=
    let all := flat_map ar_evs ann in
    flat_map (fun k => filter (fun te => Nat.eqb (ev_kind te) k) all) (seq 0 5).
  Definition raw_events (lg : elog) : list tevent := raw_events_of (annotated lg).

  (** ** scaling *)
  Definition tapp (f : F -> F) (t : time) : time := match t with Fin x => Fin (f x) | Inf => Inf end.
  Definition graph_map (ft fs fm : F -> F) (g : graph) : graph :=
    mkGraph
      (map (fun d => mkDeme (d_id d) (tapp ft (d_start d)) (d_anc d)
                            (map (fun e => mkEpoch (tapp ft (e_start e)) (ft (e_end e)) (fs (e_s0 e)) (fs (e_s1 e)) (e_fn e))
                                 (d_epochs d))) (g_demes g))
      (map (fun m => mkMig (m_src m) (m_dst m) (tapp ft (m_start m)) (ft (m_end m)) (fm (m_rate m))) (g_migs g))
      (map (fun p => mkPulse (p_srcs p) (p_dst p) (ft (p_time p)) (p_props p)) (g_pulses g)).

  (** Demes.output(Nref, generation_time = gt): the graph (in years when gt is given, else in generations) *)
  Definition time_out (Nref : F) (gt : option F) (t : F) : F :=
    match gt with Some k => t * (n2 * Nref) * k | None => t * (n2 * Nref) end.
  Definition export_model (Nref : F) (gt : option F) (lg : elog) : graph :=
    graph_map (time_out Nref gt) (fun s => s * Nref) (fun m => m / (n2 * Nref)) (raw_graph lg).
  (** the events of that graph once converted to generations (Graph.in_generations divides the times by gt) *)
  Definition export_events (Nref : F) (gt : option F) (lg : elog) : list tevent :=
    map (fun te => (match gt with Some k => time_out Nref gt (fst te) / k | None => time_out Nref gt (fst te) end, snd te))
        (raw_events lg).

  (** ** the class of logs of the round-trip theorem: [d] populations before the round *)
  Definition ev_dim (d : nat) (e : sev) : nat :=
    match e with SSplit _ => S d | SRemove _ => (d - 1)%nat | _ => d end.
  Definition ev_ok (d : nat) (e : sev) : Prop :=
    match e with
    | SNone => True
    | SSplit props => length props = d /\ d <= 4 /\ nz_idx props <> [] /\ (forall i, nz_idx props = [i] -> props = unit_vec d i)
    | SPulse srcs dst props =>
      2 <= d /\ srcs <> [] /\ length props = length srcs /\ 1 <= dst <= d
      /\ Forall (fun k => 1 <= k <= d /\ k <> dst) srcs /\ NoDup srcs /\ Forall (fun f => (f =? n0) = false) props
    | SRemove k => 2 <= d /\ 1 <= k <= d
    | SReorder ord => False
    end.
  Definition round_ok (d : nat) (r : round) : Prop :=
    let d' := ev_dim d (r_ev r) in
    ev_ok d (r_ev r) /\ d' <= 5 /\ (n0 <? r_T r) = true /\ length (r_sizes r) = d' /\ length (r_mig r) = length (offdiag d')
    /\ (r_const r = false -> Forall (fun s => snd s = false -> (fst (fst s) =? snd (fst s)) = false) (r_sizes r)).
  Fixpoint rounds_ok (d : nat) (rs : list round) : Prop :=
    match rs with
    | [] => True
    | r :: rs' => round_ok d r /\ rounds_ok (ev_dim d (r_ev r)) rs'
    end.
  Definition log_ok (lg : elog) : Prop := rounds_ok 1 (l_rounds lg).

  (** the stages of the theorem: which records a log contains *)
  Definition is_branch (e : sev) : bool :=
    match e with SSplit props => Nat.eqb (length (nz_idx props)) 1 | _ => false end.
  Definition ev_stage (e : sev) : nat :=
    match e with
    | SNone => 1
    | SSplit _ => if is_branch e then 2 else 5
    | SPulse _ _ _ => 5
    | SRemove _ | SReorder _ => 6
    end.
  Definition round_stage (r : round) : nat :=
    Nat.max (ev_stage (r_ev r))
            (Nat.max (if r_const r then 1 else 3) (if forallb (fun m => m =? n0) (r_mig r) then 1 else 4)).
  Definition log_stage (n : nat) (lg : elog) : Prop := Forall (fun r => round_stage r <= n) (l_rounds lg).
End ExportModel.

Arguments sev : clear implicits.
Arguments round : clear implicits.
Arguments elog : clear implicits.
Arguments stage : clear implicits.
Arguments birth : clear implicits.
Arguments arnd : clear implicits.
