(** * Extrap: Richardson/Lagrange extrapolation to x = 0  (dadi/Numerics.py make_extrap_func).

    Executable model only. *)
From Coq Require Import ZArith List.
From Dadi Require Import Base.Num.
Import ListNotations.
Local Open Scope num_scope.

Section Extrap.
  Context {F : Type} `{Num F}.

  (** Lagrange basis weight at 0 of node [x] among the nodes [xs]:
      prod over the other nodes x' of x'/(x' - x). "Other" is decided by value:
      the nodes are pairwise distinct wherever the formula is defined at all. *)
  Definition lag0_weight (xs : list F) (x : F) : F :=
    nprod (map (fun x' => if x' =? x then n1 else x' / (x' - x)) xs).

  Definition lagrange0 (ps : list (F * F)) : F :=
    nsum (map (fun p => lag0_weight (map fst ps) (fst p) * snd p) ps).

  (** the five closed formulas of Numerics.py, as written there *)
  Definition linear_extrap (ys xs : list F) : option F :=
    match ys, xs with
    | [y1; y2], [x1; x2] => Some ((x2 * y1 - x1 * y2) / (x2 - x1))
    | _, _ => None
    end.

  (** dispatch of make_extrap_func on the number of grid sizes (scalar entry) *)
  Definition extrap_entry (xs ys : list F) : option F :=
    match length xs, Nat.eqb (length xs) (length ys) with
    | _, false => None
    | 1%nat, _ => Some (hd n0 ys)
    | 2%nat, _ | 3%nat, _ | 4%nat, _ | 5%nat, _ | 6%nat, _ => Some (lagrange0 (combine xs ys))
    | _, _ => None          (* ValueError: must be between 1 and 6 *)
    end.

  (** index of the smallest x (numpy.argmin: first minimum) *)
  Fixpoint argmin_aux (xs : list F) (i besti : nat) (best : F) : nat :=
    match xs with
    | [] => besti
    | x :: t => if x <? best then argmin_aux t (S i) i x else argmin_aux t (S i) besti best
    end.
  Definition argmin (xs : list F) : nat :=
    match xs with [] => 0%nat | x :: t => argmin_aux t 1 0 x end.

  (** one entry of the final result: extrapolate (in log space if [logm]), then fall back to the
      finest-grid value when the extrapolation lands more than [fail_mag] decades away. *)
  Definition ln10 : F := nln (nofZ 10).
  (* abs(log10(ex/best)) > fail_mag in IEEE arithmetic: log10(0) = -inf (far), log10(negative) = nan (not far) *)
  Definition far (fail_mag ex best : F) : bool :=
    let r := ex / best in
    if r =? n0 then true else if r <? n0 then false
    else fail_mag <? nabs (nln r / ln10).
  Definition extrap_full (logm : bool) (fail_mag : F) (xs ys : list F) : option F :=
    let ys' := if logm then map nln ys else ys in
    match extrap_entry xs ys' with
    | None => None
    | Some e =>
      let ex := if logm then nexp e else e in
      match length xs with
      | 1%nat => Some ex
      | _ => let best := nth (argmin xs) ys n0 in
             Some (if far fail_mag ex best then best else ex)
      end
    end.

  (** the same computation with the Lagrange weights of the node list handed in ([ws], one per node) and the data to
      extrapolate ([ys'] = ys, or their logarithms) prepared by the caller: with [ws := map (lag0_weight xs) xs] and
      [ys' := if logm then map nln ys else ys] this IS [extrap_full] (Proofs/ExtrapAll.v, [extrap_full_pre_eq], for every
      number type).  Used by the batched correspondence check, where many data sets share one node list. *)
  Definition lagrange0_w (ws ys : list F) : F := nsum (map (fun p => fst p * snd p) (combine ws ys)).
  Definition extrap_entry_w (xs ws ys : list F) : option F :=
    match length xs, Nat.eqb (length xs) (length ys) with
    | _, false => None
    | 1%nat, _ => Some (hd n0 ys)
    | 2%nat, _ | 3%nat, _ | 4%nat, _ | 5%nat, _ | 6%nat, _ => Some (lagrange0_w ws ys)
    | _, _ => None
    end.
  Definition extrap_full_pre (logm : bool) (fail_mag : F) (xs ws ys ys' : list F) : option F :=
    match extrap_entry_w xs ws ys' with
    | None => None
    | Some e =>
      let ex := if logm then nexp e else e in
      match length xs with
      | 1%nat => Some ex
      | _ => let best := nth (argmin xs) ys n0 in
             Some (if far fail_mag ex best then best else ex)
      end
    end.

  (** polynomial in the grid spacing, coefficients lowest degree first *)
  Fixpoint peval (cs : list F) (x : F) : F :=
    match cs with [] => n0 | c :: t => c + x * peval t x end.

  (** ** the wrapped function as an object that is USED REPEATEDLY
      [make_extrap_func] captures [extrap_x_l] once: the store is [Some xs] for an explicit list, [None] when the
      x values are read off the results of each call ([.extrap_x]).  One call receives the results of the model in the
      order of the pts list of THAT call ([snd call]) and the extrap_x they carry ([fst call]); it returns one
      extrapolated entry and the store it leaves behind.  [step] is the extrapolation proper ([extrap_entry], or
      [extrap_full logm fail_mag]).  The code only READS the captured list: the store is handed on unchanged. *)
  Definition call_xs (store : option (list F)) (attr_xs : list F) : list F :=
    match store with Some xs => xs | None => attr_xs end.
  Definition wrapped_call (step : list F -> list F -> option F) (store : option (list F))
             (call : list F * list F) : option F * option (list F) :=
    (step (call_xs store (fst call)) (snd call), store).
  Fixpoint run_calls (step : list F -> list F -> option F) (store : option (list F))
           (calls : list (list F * list F)) : list (option F) * option (list F) :=
    match calls with
    | [] => ([], store)
    | c :: t => let rs := wrapped_call step store c in
                let rest := run_calls step (snd rs) t in
                (fst rs :: fst rest, snd rest)
    end.
  (** what a wrapper that rewrites the captured list in place (sort, reverse, ...: [g]) after using it would be;
      only used to state that such a wrapper is NOT exact from the second call on (Props/C07.v). *)
  Fixpoint run_calls_rewriting (g : list F -> list F) (step : list F -> list F -> option F)
           (store : option (list F)) (calls : list (list F * list F)) : list (option F) * option (list F) :=
    match calls with
    | [] => ([], store)
    | c :: t => let r := step (call_xs store (fst c)) (snd c) in
                let rest := run_calls_rewriting g step (option_map g store) t in
                (r :: fst rest, snd rest)
    end.

  (** ** how the spacings are TYPED
      The caller may write a spacing as an integer (python int - the documented type of extrap_x_l is list[int] -, numpy
      integer scalar, element of an integer ndarray, integer [.extrap_x] attribute) or as a float, and may mix the two.
      The closed formulas of Numerics.py combine the scalars with [*], [-] and TRUE division, so an integer enters as
      the number it denotes: the typed call is the untyped one on [map xnum]. *)
  Inductive xval : Type := XInt (z : Z) | XNum (x : F).
  Definition xnum (v : xval) : F := match v with XInt z => nofZ z | XNum x => x end.
  Definition extrap_entry_typed (xs : list xval) (ys : list F) : option F := extrap_entry (map xnum xs) ys.
  Definition extrap_full_typed (logm : bool) (fail_mag : F) (xs : list xval) (ys : list F) : option F :=
    extrap_full logm fail_mag (map xnum xs) ys.

  (** what an implementation that keeps the Lagrange weights of an all-integer list in an INTEGER container would be
      (numpy.empty_like of an integer array, floor/integer division of the scalars, ...): every weight
      prod x_j / prod (x_j - x_i) cut to an integer by [cut] ([Z.quot]: toward zero, a C cast; [Z.div]: floor).
      Only used to state that such an implementation is NOT exact (Props/C07.v). *)
  Definition zweight (cut : Z -> Z -> Z) (zs : list Z) (z : Z) : Z :=
    let others := filter (fun z' => negb (Z.eqb z' z)) zs in
    cut (fold_right Z.mul 1%Z others) (fold_right Z.mul 1%Z (map (fun z' => (z' - z)%Z) others)).
  Definition lagrange0_intweights (cut : Z -> Z -> Z) (zs : list Z) (ys : list F) : F :=
    lagrange0_w (map (fun z => nofZ (zweight cut zs z)) zs) ys.
End Extrap.
