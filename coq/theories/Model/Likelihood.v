(** * Likelihood: dadi/Inference.py  ll, ll_per_bin, ll_multinom(_per_bin), optimal_sfs_scaling,
      optimally_scaled_sfs, linear_Poisson_residual, Anscombe_Poisson_residual
      and dadi/Numerics.py intersect_masks.

    Executable model only (no proofs).  A spectrum is the flat (C-order) list of its entries, each a
    pair (value, mask) -- mask = true means "masked" as in numpy.ma -- together with its [folded] flag.

    Arguments that stand for things outside this file:
    - [lgam]   : scipy.special.gammaln  (uninterpreted on the R side, [Qlgamma] on the Q side);
    - [fold]   : Spectrum.fold on flat entry lists (another property models it; here it is an argument.
                 [fold_flat] below is the instance used to *run* the model);
    - [remask] : the value of [mask_corners] with which Numerics.intersect_masks re-wraps its two
                 arguments when their masks differ (re-read from the source on every run; the
                 constructor default is True). *)
From Coq Require Import ZArith List Bool.
From Dadi Require Import Base.Num.
Import ListNotations.
Local Open Scope num_scope.

Section Likelihood.
  Context {F : Type} `{Num F}.

  Definition entry : Type := (F * bool)%type.
  Definition ev (e : entry) : F := fst e.
  Definition em (e : entry) : bool := snd e.

  Definition zipw {A B C : Type} (f : A -> B -> C) (a : list A) (b : list B) : list C :=
    map (fun p => f (fst p) (snd p)) (combine a b).

  (** sum of a masked array: the unmasked entries *)
  Definition msum (l : list entry) : F := nsum (map ev (filter (fun e => negb (em e)) l)).

  (** [theta * model] : Spectrum arithmetic with a scalar acts on the data, the mask is kept *)
  Definition scale (s : F) (l : list entry) : list entry := map (fun e => (s * ev e, em e)) l.

  (** the [if data.folded and not model.folded: model = model.fold()] prologue of every function.
      (A folded model with unfolded data is not modelled: Spectrum arithmetic raises ValueError there; the
      harness checks that refusal on the real code.) *)
  Definition auto_fold (fold : list entry -> list entry) (mfolded dfolded : bool) (m : list entry) : list entry :=
    if dfolded && negb mfolded then fold m else m.

  (** numpy.ma.log: masked where the argument is masked or <= 0 *)
  Definition ma_log (e : entry) : entry := (nln (ev e), em e || (ev e <=? n0)).

  Variable lgam : F -> F.

  (** result = -model.data + data.data*model.log() - gammaln(data + 1.)
      mask: (mask of model.log()) or (mask of data) *)
  Definition llpb_entry (m d : entry) : entry :=
    let lm := ma_log m in
    ((- ev m) + ev d * ev lm - lgam (ev d + n1), em lm || em d).

  Variable fold : list entry -> list entry.

  Definition ll_per_bin (mf df : bool) (m d : list entry) : list entry :=
    zipw llpb_entry (auto_fold fold mf df m) d.

  Definition ll (mf df : bool) (m d : list entry) : F := msum (ll_per_bin mf df m d).

  (** Numerics.intersect_masks *)
  Definition masks_equal (m d : list entry) : bool :=
    forallb (fun p => Bool.eqb (em (fst p)) (em (snd p))) (combine m d).
  Definition jmask (m d : list entry) : list bool := zipw (fun a b => em a || em b) m d.
  Definition setmask (l : list entry) (mk : list bool) : list entry := zipw (fun e b => (ev e, em e || b)) l mk.
  Fixpoint mask_last (mk : list bool) : list bool :=
    match mk with
    | [] => []
    | [_] => [true]
    | b :: t => b :: mask_last t
    end.
  Definition mask_first (mk : list bool) : list bool := match mk with [] => [] | _ :: t => true :: t end.
  (** Spectrum.mask_corners: flat[0] and flat[-1] *)
  Definition mask_ends (mk : list bool) : list bool := mask_first (mask_last mk).

  Variable remask : bool.

  Definition intersect_masks (m d : list entry) : list entry * list entry :=
    if masks_equal m d then (m, d)
    else let jm := jmask m d in
         let jm := if remask then mask_ends jm else jm in
         (setmask m jm, setmask d jm).

  Definition optimal_sfs_scaling (mf df : bool) (m d : list entry) : F :=
    let m' := auto_fold fold mf df m in
    let md := intersect_masks m' d in
    msum (snd md) / msum (fst md).

  (** optimal_sfs_scaling(model,data) * model  -- the model itself is NOT folded here *)
  Definition optimally_scaled_sfs (mf df : bool) (m d : list entry) : list entry :=
    scale (optimal_sfs_scaling mf df m d) m.

  Definition ll_multinom_per_bin (mf df : bool) (m d : list entry) : list entry :=
    ll_per_bin mf df (optimally_scaled_sfs mf df m d) d.

  Definition ll_multinom (mf df : bool) (m d : list entry) : F := msum (ll_multinom_per_bin mf df m d).

  (** ** residuals.  Spectrum arithmetic is raw arithmetic on .data with the masks or-ed, so a division by
      zero leaves an *unmasked* non-finite value: third constructor. *)
  Inductive rentry : Type := RMasked | RNonFinite | RVal (x : F).

  Definition npower (x a : F) : F := nexp (a * nln x).        (* x ** a for x > 0 *)
  Definition nsqrt (x : F) : F := npower x nhalf.

  Definition cut_both (cut : option F) (m d : F) : bool :=
    match cut with None => false | Some c => (m <=? c) && (d <=? c) end.

  (** resid = (model - data)/numpy.ma.sqrt(model); masked_where(model <= mask and data <= mask) *)
  Definition lin_entry (cut : option F) (m d : entry) : rentry :=
    if em m || em d then RMasked
    else if ev m <? n0 then RMasked                          (* ma.sqrt masks negative arguments *)
    else if cut_both cut (ev m) (ev d) then RMasked
    else if ev m =? n0 then RNonFinite
    else RVal ((ev m - ev d) / nsqrt (ev m)).

  Definition linear_Poisson_residual (cut : option F) (mf df : bool) (m d : list entry) : list rentry :=
    zipw (lin_entry cut) (auto_fold fold mf df m) d.

  Definition n3 : F := n1 + n2.
  Definition n9 : F := n3 * n3.
  Definition anscombe_trans (x : F) : F := npower x (n2 / n3) - npower x (- (n1 / n3)) / n9.
  (** numpy.ma.power(x, -1/3) masks x = 0 (inf) and x < 0 (nan) *)
  Definition ans_entry (cut : option F) (m d : entry) : rentry :=
    if em m || em d then RMasked
    else if (ev d <=? n0) || (ev m <=? n0) then RMasked
    else if cut_both cut (ev m) (ev d) then RMasked          (* "or data == 0" is subsumed by the line above *)
    else RVal (- ((n3 / n2) * (anscombe_trans (ev d) - anscombe_trans (ev m)) / npower (ev m) (n1 / (n3 * n2)))).

  Definition Anscombe_Poisson_residual (cut : option F) (mf df : bool) (m d : list entry) : list rentry :=
    zipw (ans_entry cut) (auto_fold fold mf df m) d.
End Likelihood.

(** ** An executable instance of Spectrum.fold on flat lists (used to run the model; the theorems are
    about an arbitrary [fold] that commutes with scaling, which this instance is proved to do).
    [tot] : sum of the multi-index of each entry (C order), [N] : total sample size. *)
Section FoldFlat.
  Context {F : Type} `{Num F}.
  Definition fold_entry (N : Z) (p : (entry * entry) * Z) : entry :=
    let a := fst (fst p) in let b := snd (fst p) in let t := snd p in
    let out := (N <? 2 * t)%Z in                     (* total_per_entry > int(total_samples/2) *)
    let amb := (2 * t =? N)%Z in                     (* total_per_entry == total_samples/2. *)
    let rev_in := (2 * t <? N)%Z in                  (* the reversed partner is folded out *)
    let v := if out then n0
             else (ev a + (if rev_in then ev b else n0))
                  + (if amb then (- nhalf) * ev a + nhalf * ev b else n0) in
    (v, em a || em b || out).
  (** Spectrum.fold ends in Spectrum(folded, mask=final_mask, data_folded=True): the constructor's default
      mask_corners=True masks flat[0] and flat[-1] of the result *)
  Fixpoint mask_last_entry (l : list (F * bool)) : list (F * bool) :=
    match l with
    | [] => []
    | [e] => [(fst e, true)]
    | e :: t => e :: mask_last_entry t
    end.
  Definition mask_corner_entries (l : list (F * bool)) : list (F * bool) :=
    match mask_last_entry l with [] => [] | e :: t => (fst e, true) :: t end.
  Definition fold_flat (N : Z) (tot : list Z) (l : list entry) : list entry :=
    mask_corner_entries (map (fold_entry N) (combine (combine l (rev l)) tot)).
End FoldFlat.
