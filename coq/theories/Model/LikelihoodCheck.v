(** Q-side comparison functions used by the C11 correspondence files: the model of Model/Likelihood.v is run
    on Q with the dictionary NumQfast (Model/QFast.v), Qlgamma from Model/Qlgamma.v, fold = fold_flat and
    compared with what the real code returned: masks must agree exactly, values within tol * scale where
    scale is the sum of the absolute values of the terms that were added up (conditioning). *)
From Coq Require Import ZArith QArith Qabs Qreduction List Bool.
From Dadi Require Import Base.Num Base.NumQ Model.QFast Model.Likelihood Model.Qlgamma.
Import ListNotations.
Open Scope Q_scope.

Definition qe : Type := (Q * bool)%type.
(** a residual entry as returned by the implementation *)
Inductive rq : Type := QM | QNF | QV (x : Q).

Record lcase := {
  lc_N : Z; lc_tot : list Z;            (* total sample size, sum of the multi-index of each entry (for fold_flat) *)
  lc_remask : bool; lc_mf : bool; lc_df : bool; lc_cut : option Q;
  lc_m : list qe; lc_d : list qe;
  lc_ll : Q; lc_llpb : list qe; lc_scal : Q; lc_llm : Q; lc_llmpb : list qe; lc_oss : list qe;
  lc_resid : bool;                      (* compare the residual arrays too *)
  lc_lin : list rq; lc_ans : list rq }.

Definition Qmax2 (a b : Q) : Q := if Qle_bool a b then b else a.
Definition acc := (bool * Q)%type.                  (* all ok so far, largest relative error *)
Definition acc_and (x y : acc) : acc := (fst x && fst y, Qmax2 (snd x) (snd y)).
Definition close1 (tol scale a b : Q) : acc :=
  let s := if Qle_bool scale 0 then 1 else scale in
  let e := Qred (Qabs (a - b) / s) in (Qle_bool e tol, e).

(** masked arrays: masks equal; values close where unmasked *)
Fixpoint close_entries (tol : Q) (model impl : list qe) (scales : list Q) : acc :=
  match model, impl, scales with
  | [], [], _ => (true, 0)
  | (v, b) :: model', (w, c) :: impl', s :: scales' =>
      let r := close_entries tol model' impl' scales' in
      if Bool.eqb b c then (if b then r else acc_and (close1 tol s v w) r) else (false, 1000000)
  | _, _, _ => (false, 1000000)
  end.

Fixpoint close_resid (tol : Q) (model : list (@rentry Q)) (impl : list rq) (scales : list Q) : acc :=
  match model, impl, scales with
  | [], [], _ => (true, 0)
  | x :: model', y :: impl', s :: scales' =>
      let r := close_resid tol model' impl' scales' in
      match x, y with
      | RMasked, QM => r
      | RNonFinite, QNF => r
      | RVal v, QV w => acc_and (close1 tol s v w) r
      | _, _ => (false, 1000000)
      end
  | _, _, _ => (false, 1000000)
  end.

(** cheap upper estimate (no transcendental function) of |m| + |d ln m| + |lgamma(d+1)|, the three terms of one
    ll_per_bin entry: |ln x| <= 1 + |floor(log2 x)|, lgamma(d+1) <= (d+1)(1 + log2(d+1)) *)
Definition lnbound (x : Q) : Q := match Qnum x with Zpos _ => inject_Z (1 + Z.abs (Qlog2 x)) | _ => 1 end.
Definition term_abs (a d : qe) : Q :=
  Qred (Qabs (fst a) + Qabs (fst d) * lnbound (fst a) + (Qabs (fst d) + 1) * lnbound (Qabs (fst d) + 1)).
Definition sum_unmasked (vals : list Q) (like : list qe) : Q :=
  fold_right Qplus 0 (map fst (filter (fun p => negb (snd (snd p))) (combine vals like))).
Definition abs_entries (l : list qe) : list qe := map (fun e => (Qabs (fst e), snd e)) l.

(** gammaln tabulated once per case on the arguments that occur (data + 1); any other argument is computed *)
Fixpoint lookup (tab : list (Q * Q)) (x : Q) : Q :=
  match tab with
  | [] => Qlgamma x
  | (k, v) :: t => if Qeq_bool k x then v else lookup t x
  end.
Definition lgam_table (d : list qe) : list (Q * Q) :=
  map (fun e => let x := Qplus' (fst e) 1 in (x, Qlgamma x)) d.

Section Check.
  (* the model is run on the dictionary NumQfast (exact field operations, 96-bit ln/exp) *)
  Local Existing Instance NumQfast.

  Record parts := { p_pb : acc; p_ll : acc; p_s : acc; p_oss : acc; p_pbm : acc; p_llm : acc; p_lin : acc; p_ans : acc }.

  Definition lparts (tol : Q) (c : lcase) : parts :=
    let fold := fold_flat (H := NumQfast) (lc_N c) (lc_tot c) in
    let mf := lc_mf c in let df := lc_df c in let m := lc_m c in let d := lc_d c in
    let tab := lgam_table d in
    let lg := lookup tab in
    let m' := auto_fold fold mf df m in
    (* ll_per_bin, ll *)
    let pb := ll_per_bin (H := NumQfast) lg fold mf df m d in
    let sc := zipw term_abs m' d in
    (* scaling *)
    let s := optimal_sfs_scaling (H := NumQfast) fold (lc_remask c) mf df m d in
    let md := intersect_masks (lc_remask c) m' d in
    let cond := Qred (1 + msum (H := NumQfast) (abs_entries (fst md)) / Qabs (msum (H := NumQfast) (fst md))) in
    (* optimally scaled sfs, ll_multinom(_per_bin) *)
    let sm := scale (H := NumQfast) s m in
    let sm' := auto_fold fold mf df sm in
    let pbm := ll_per_bin (H := NumQfast) lg fold mf df sm d in
    let scm := map (fun x => x * cond) (zipw term_abs sm' d) in
    (* residuals (only when requested: five powers per entry) *)
    let rs := zipw (fun a b => Qabs (fst a) + Qabs (fst b) + 1) m' d in
    let lin := if lc_resid c then linear_Poisson_residual (H := NumQfast) fold (lc_cut c) mf df m d else [] in
    let ans := if lc_resid c then Anscombe_Poisson_residual (H := NumQfast) fold (lc_cut c) mf df m d else [] in
    let rsl := map (fun p => match fst p with RVal v => Qabs v + snd p | _ => snd p end) (combine lin rs) in
    let rsa := map (fun p => match fst p with RVal v => Qabs v + snd p | _ => snd p end) (combine ans rs) in
    {| p_pb := close_entries tol pb (lc_llpb c) sc;
       p_ll := close1 tol (sum_unmasked sc pb) (msum (H := NumQfast) pb) (lc_ll c);
       p_s := close1 tol (Qabs s * cond) s (lc_scal c);
       p_oss := close_entries tol sm (lc_oss c) (map (fun e => Qabs (fst e) * cond) sm);
       p_pbm := close_entries tol pbm (lc_llmpb c) scm;
       p_llm := close1 tol (sum_unmasked scm pbm) (msum (H := NumQfast) pbm) (lc_llm c);
       p_lin := if lc_resid c then close_resid tol lin (lc_lin c) rsl else (true, 0);
       p_ans := if lc_resid c then close_resid tol ans (lc_ans c) rsa else (true, 0) |}.
End Check.

Definition parts_list (p : parts) : list acc := [p_pb p; p_ll p; p_s p; p_oss p; p_pbm p; p_llm p; p_lin p; p_ans p].

Definition lcheck (tol : Q) (c : lcase) : bool * Z :=
  let all := fold_right acc_and (true, 0) (parts_list (lparts tol c)) in
  (fst all, Qlog2 (snd all)).

(** diagnosis: which of the eight comparisons failed
    (ll_per_bin, ll, scaling, scaled sfs, ll_multinom_per_bin, ll_multinom, linear residual, Anscombe residual) *)
Definition lcheck_parts (tol : Q) (c : lcase) : list bool := map fst (parts_list (lparts tol c)).

(** Qlgamma against an implementation value of gammaln (sanity of the approximation and of the oracle's identity) *)
Definition lgcheck (tol : Q) (p : Q * Q) : bool * Z :=
  let r := close1 tol (1 + Qabs (snd p)) (Qlgamma (fst p)) (snd p) in (fst r, Qlog2 (snd r)).
(** the fast logarithm against an implementation value *)
Definition lncheck (tol : Q) (p : Q * Q) : bool * Z :=
  let r := close1 tol (1 + Qabs (snd p)) (QFast.Qln_fast (fst p)) (snd p) in (fst r, Qlog2 (snd r)).
