(** * DataDict: genotype data -> data dictionary -> count dictionary -> spectrum; chunks and bootstraps
    (dadi/Misc.py [_get_popinfo], [make_data_dict_vcf], [count_data_dict], [fragment_data_dict],
     [bootstraps_from_dd_chunks]; dadi/Spectrum_mod.py [from_data_dict], [_from_count_dict]).

    Executable model only (no proofs).  Text is Coq [string]; a VCF line arrives already split at tabs
    ([line.split("\t")], so the last column still carries the newline), a popinfo line already split at white space.
    Python dictionaries are association lists in insertion order ([dset] keeps the position of an existing key,
    exactly as [d[k] = v] does).  Exceptions of the Python code are [None] / [LErr].
    numpy.random.choice and random.choices are oracles: function arguments ([choose], [picks]).
    gzip/zip transport is the identity (not modelled).  calc_coverage, extract_ploidy, flanking_info are at their
    defaults (False, False, [None, None]). *)
From Coq Require Import ZArith NArith List Bool Arith String Ascii.
From Dadi Require Import Base.Num Model.Projection Model.Fold.
Import ListNotations.
Local Open Scope string_scope.

(** ** Python string methods *)
Definition upper_ascii (a : ascii) : ascii :=
  let n := nat_of_ascii a in
  if (97 <=? n)%nat && (n <=? 122)%nat then ascii_of_nat (n - 32) else a.
Fixpoint upper (s : string) : string :=
  match s with EmptyString => EmptyString | String a r => String (upper_ascii a) (upper r) end.
Definition lower_ascii (a : ascii) : ascii :=
  let n := nat_of_ascii a in
  if (65 <=? n)%nat && (n <=? 90)%nat then ascii_of_nat (n + 32) else a.
Fixpoint lower (s : string) : string :=
  match s with EmptyString => EmptyString | String a r => String (lower_ascii a) (lower r) end.

(** s.split(c) for a one-character separator: never empty, empty pieces kept *)
Fixpoint split (c : ascii) (s : string) : list string :=
  match s with
  | EmptyString => [EmptyString]
  | String a r =>
      if Ascii.eqb a c then EmptyString :: split c r
      else match split c r with
           | h :: t => String a h :: t
           | [] => [String a EmptyString]
           end
  end.
(** s.split(c, 1): (text before the first c, text after it if there is one) *)
Fixpoint split1 (c : ascii) (s : string) : string * option string :=
  match s with
  | EmptyString => (EmptyString, None)
  | String a r =>
      if Ascii.eqb a c then (EmptyString, Some r)
      else let p := split1 c r in (String a (fst p), snd p)
  end.
(** sep.join(l) *)
Fixpoint join (sep : string) (l : list string) : string :=
  match l with
  | [] => EmptyString
  | [x] => x
  | x :: r => x ++ sep ++ join sep r
  end.
(** s[::2] *)
Fixpoint evens (s : string) : string :=
  match s with
  | EmptyString => EmptyString
  | String a EmptyString => String a EmptyString
  | String a (String _ r) => String a (evens r)
  end.
(** s.count(c) for a single character *)
Fixpoint count_char (c : ascii) (s : string) : nat :=
  match s with
  | EmptyString => 0
  | String a r => (if Ascii.eqb a c then 1 else 0) + count_char c r
  end.
(** c in s *)
Definition has_char (c : ascii) (s : string) : bool := negb (count_char c s =? 0)%nat.
Definition starts_with (p s : string) : bool := prefix p s.
(** l.index(x) *)
Fixpoint index_of (x : string) (l : list string) : option nat :=
  match l with
  | [] => None
  | y :: r => if String.eqb y x then Some 0%nat else option_map S (index_of x r)
  end.
Definition mem_str (x : string) (l : list string) : bool := existsb (String.eqb x) l.
Definition is_base (s : string) : bool := mem_str s ["A"; "C"; "G"; "T"].
(** l[:-1] *)
Fixpoint drop_last {A} (l : list A) : list A :=
  match l with [] => [] | [_] => [] | x :: r => x :: drop_last r end.

(** int(s) for a non-empty string of decimal digits (everything else: ValueError = None;
    Python also accepts signs, blanks and underscores, which do not occur in positions) *)
Definition digit_of (a : ascii) : option N :=
  let n := nat_of_ascii a in
  if (48 <=? n)%nat && (n <=? 57)%nat then Some (N.of_nat (n - 48)) else None.
Fixpoint parse_digits (s : string) (acc : N) : option N :=
  match s with
  | EmptyString => Some acc
  | String a r => match digit_of a with None => None | Some d => parse_digits r (acc * 10 + d)%N end
  end.
Definition parse_int (s : string) : option N :=
  match s with EmptyString => None | _ => parse_digits s 0%N end.
(** '{0}'.format(n) *)
Definition digit_char (d : N) : ascii := ascii_of_nat (48 + N.to_nat d).
Fixpoint show_pos_aux (fuel : nat) (n : N) (acc : string) : string :=
  match fuel with
  | O => acc
  | S f => let acc' := String (digit_char (n mod 10)%N) acc in
           if (n / 10 =? 0)%N then acc' else show_pos_aux f (n / 10)%N acc'
  end.
Definition show_N (n : N) : string := show_pos_aux (S (N.to_nat (N.log2 n))) n EmptyString.

(** str.split(): split at runs of white space, no empty pieces *)
Definition is_space (a : ascii) : bool :=
  let n := nat_of_ascii a in (n =? 32)%nat || ((9 <=? n)%nat && (n <=? 13)%nat).
Fixpoint wsplit_aux (s : string) (cur : string) (has : bool) : list string :=
  match s with
  | EmptyString => if has then [cur] else []
  | String a r =>
      if is_space a then (if has then cur :: wsplit_aux r EmptyString false else wsplit_aux r EmptyString false)
      else wsplit_aux r (cur ++ String a EmptyString) true
  end.
Definition wsplit (s : string) : list string := wsplit_aux s EmptyString false.

(** ** Python dict with string keys *)
Definition dict (V : Type) := list (string * V).
Fixpoint dget {V} (k : string) (d : dict V) : option V :=
  match d with
  | [] => None
  | (k', v) :: r => if String.eqb k' k then Some v else dget k r
  end.
Fixpoint dset {V} (k : string) (v : V) (d : dict V) : dict V :=
  match d with
  | [] => [(k, v)]
  | (k', v') :: r => if String.eqb k' k then (k, v) :: r else (k', v') :: dset k v r
  end.
Definition dhas {V} (k : string) (d : dict V) : bool := match dget k d with Some _ => true | None => false end.

(** ** _get_popinfo on the white-space-split lines of the popinfo file
    (a line is a comment when its first token starts with '#': the harness never indents) *)
Definition is_comment (toks : list string) : bool :=
  match toks with t :: _ => starts_with "#" t | [] => false end.

(** first non-comment line: header detection; returns (sample_col, pop_col, header) *)
Fixpoint popinfo_header (lines : list (list string)) : nat * nat * bool :=
  match lines with
  | [] => (0, 1, false)%nat
  | toks :: r =>
      if is_comment toks then popinfo_header r
      else let cols := map lower toks in
           let '(sc, h1) := match index_of "sample" cols with Some i => (i, true) | None => (0%nat, false) end in
           let '(pc, h2) := match index_of "pop" cols with Some i => (i, true) | None => (1%nat, false) end in
           (sc, pc, h1 || h2)
  end.

Fixpoint popinfo_rows (sc pc : nat) (lines : list (list string)) (header : bool) (d : dict string)
  : option (dict string) :=
  match lines with
  | [] => Some d
  | toks :: r =>
      if is_comment toks || match toks with [] => true | _ => false end then popinfo_rows sc pc r header d
      else match nth_error toks sc, nth_error toks pc with
           | Some sample, Some pop =>
               if (String.eqb (lower sample) "sample" || String.eqb (lower pop) "pop") && header
               then popinfo_rows sc pc r false d
               else popinfo_rows sc pc r header (dset sample pop d)
           | _, _ => None                                   (* IndexError -> 'Failed in parsing popinfo file.' *)
           end
  end.

Definition get_popinfo (lines : list (list string)) : option (dict string) :=
  let '(sc, pc, h) := popinfo_header lines in popinfo_rows sc pc lines h [].

(** ** one entry of the data dictionary *)
Record snp := {
  s_seg : list string;                 (* 'segregating' *)
  s_context : string;
  s_out : option string;               (* 'outgroup_allele' (None: key absent; the VCF reader always sets it) *)
  s_out_context : string;
  s_calls : dict (nat * nat)           (* 'calls': pop -> (calls of segregating[0], calls of segregating[1]) *)
}.

(** ancestral allele from the INFO column:
      for field in info: if field starts with AA= / AA_ensembl= / AA_chimp=:
          a = field.split('=')[1].upper().split('|')[0]; '-' unless a single base; break
      else '-' *)
Fixpoint ancestral (info : list string) : string :=
  match info with
  | [] => "-"
  | f :: r =>
      if starts_with "AA=" f || starts_with "AA_ensembl=" f || starts_with "AA_chimp=" f then
        let a := hd EmptyString (split "|" (upper (nth 1 (split "=" f) EmptyString))) in
        if is_base a then a else "-"
      else ancestral r
  end.

(** allele counts of one genotype string: gt[::2].count('0'), gt[::2].count('1') *)
Definition gt_ref (gt : string) : nat := count_char "0" (evens gt).
Definition gt_alt (gt : string) : nat := count_char "1" (evens gt).

(** try: if f[covindex] == '0,0' or f[dpindex] == '0': continue   except: pass
    (a None index is a TypeError, a short sample an IndexError: both swallowed -> the sample is counted) *)
Definition skip_sample (covindex dpindex : option nat) (fs : list string) : bool :=
  match covindex with
  | None => false
  | Some ci =>
      match nth_error fs ci with
      | None => false
      | Some ad =>
          if String.eqb ad "0,0" then true
          else match dpindex with
               | None => false
               | Some di => match nth_error fs di with None => false | Some dp => String.eqb dp "0" end
               end
      end
  end.

(** the loop over samples without subsampling; None = IndexError on sample.split(':')[gtindex] *)
Fixpoint calls_loop (gtindex : nat) (covindex dpindex : option nat)
    (ps : list (option string * string)) (calls : dict (nat * nat)) : option (dict (nat * nat)) :=
  match ps with
  | [] => Some calls
  | (None, _) :: r => calls_loop gtindex covindex dpindex r calls
  | (Some pop, sample) :: r =>
      let calls := if dhas pop calls then calls else dset pop (0, 0)%nat calls in
      let fs := split ":" sample in
      if skip_sample covindex dpindex fs then calls_loop gtindex covindex dpindex r calls
      else match nth_error fs gtindex with
           | None => None
           | Some gt =>
               let '(rc, ac) := match dget pop calls with Some c => c | None => (0, 0)%nat end in
               calls_loop gtindex covindex dpindex r (dset pop (rc + gt_ref gt, ac + gt_alt gt)%nat calls)
           end
  end.

(** subsampling, first loop: the called genotypes per requested population *)
Definition called (gt : string) (dp : option string) : bool :=
  negb (has_char "." gt) &&
  negb (match dp with Some d => String.eqb d "0" || String.eqb d "." | None => false end).

Fixpoint collect_loop (sub : dict nat) (gtindex : nat) (dpindex : option nat)
    (ps : list (option string * string)) (sd : dict (list string)) : option (dict (list string)) :=
  match ps with
  | [] => Some sd
  | (None, _) :: r => collect_loop sub gtindex dpindex r sd
  | (Some pop, sample) :: r =>
      if negb (dhas pop sub) then collect_loop sub gtindex dpindex r sd
      else
        let fs := split ":" sample in
        match nth_error fs gtindex with
        | None => None
        | Some gt =>
            match (match dpindex with
                   | None => Some None
                   | Some di => match nth_error fs di with Some d => Some (Some d) | None => None end
                   end) with
            | None => None                                  (* IndexError on sample.split(':')[dpindex] *)
            | Some dp =>
                let sd := if dhas pop sd then sd else dset pop [] sd in
                let cur := match dget pop sd with Some l => l | None => [] end in
                collect_loop sub gtindex dpindex r
                  (if called gt dp then dset pop (cur ++ [gt])%list sd else sd)
            end
        end
  end.

(** counts of the chosen genotypes:  for ii in idx: gt = genotypes[ii]; ref += ...; alt += ... *)
Definition add_chosen (genos : list string) (idx : list nat) (c0 : nat * nat) : nat * nat :=
  fold_left (fun c ii => let gt := nth ii genos EmptyString in (fst c + gt_ref gt, snd c + gt_alt gt)%nat) idx c0.

(** subsampling, second loop.  [choose c n k] is the c-th call numpy.random.choice(range(n), k, replace=False)
    of the whole run.  Result: (Some calls | None = break: SNP dropped, number of oracle calls made so far) *)
Fixpoint choose_loop (choose : nat -> nat -> nat -> list nat) (sub : dict nat)
    (items : dict (list string)) (calls : dict (nat * nat)) (c : nat) : option (dict (nat * nat)) * nat :=
  match items with
  | [] => (Some calls, c)
  | (pop, genos) :: r =>
      let calls := if dhas pop calls then calls else dset pop (0, 0)%nat calls in
      let k := match dget pop sub with Some k => k | None => 0%nat end in
      if (List.length genos <? k)%nat then (None, c)
      else
        let idx := choose c (List.length genos) k in
        let c0 := match dget pop calls with Some x => x | None => (0, 0)%nat end in
        choose_loop choose sub r (dset pop (add_chosen genos idx c0) calls) (S c)
  end.

(** ** make_data_dict_vcf *)
Record vcf_cfg := {
  cfg_filter : bool;                       (* filter=True *)
  cfg_sub : option (dict nat)              (* subsample *)
}.

Inductive line_result :=
| LErr                                     (* the Python code raises *)
| LSkip                                    (* continue: line contributes nothing *)
| LSnp (key : string) (s : snp).

(** one data line.  [cols] = line.split("\t"), [poplist] from the header.  Returns the result and the
    oracle-call counter *)
Definition vcf_line (choose : nat -> nat -> nat -> list nat) (cfg : vcf_cfg) (poplist : list (option string))
    (cols : list string) (c : nat) : line_result * nat :=
  let snp_id := join "_" (firstn 2 cols) in
  match nth_error cols 3, nth_error cols 4, nth_error cols 6, nth_error cols 7, nth_error cols 8 with
  | Some c3, Some c4, Some c6, Some c7, Some c8 =>
      if cfg_filter cfg && negb (String.eqb c6 "PASS") && negb (String.eqb c6 ".") then (LSkip, c)
      else
        let ref := upper c3 in
        let alt := upper c4 in
        if negb (is_base ref) || negb (is_base alt) then (LSkip, c)
        else
          let out := ancestral (split ";" c7) in
          let fmt := split ":" c8 in
          match index_of "GT" fmt with
          | None => (LErr, c)                                (* ValueError: 'GT' is not in list *)
          | Some gtindex =>
              let dpindex := index_of "DP" fmt in
              let covindex := index_of "AD" fmt in
              let ps := combine poplist (skipn 9 cols) in
              let mk calls := {| s_seg := [ref; alt]; s_context := "-" ++ ref ++ "-";
                                 s_out := Some out; s_out_context := "-" ++ out ++ "-"; s_calls := calls |} in
              match cfg_sub cfg with
              | None =>
                  match calls_loop gtindex covindex dpindex ps [] with
                  | None => (LErr, c)
                  | Some calls => (LSnp snp_id (mk calls), c)
                  end
              | Some sub =>
                  match collect_loop sub gtindex dpindex ps [] with
                  | None => (LErr, c)
                  | Some sd =>
                      match choose_loop choose sub sd [] c with
                      | (None, c') => (LSkip, c')
                      | (Some calls, c') => (LSnp snp_id (mk calls), c')
                      end
                  end
              end
          end
  | _, _, _, _, _ => (LErr, c)
  end.

(** the loop over the lines of the file.  [pl] = poplist once the header has been seen *)
Fixpoint vcf_loop (choose : nat -> nat -> nat -> list nat) (cfg : vcf_cfg) (popinfo : dict string)
    (lines : list (list string)) (pl : option (list (option string))) (dd : dict snp) (c : nat)
    : option (dict snp) :=
  match lines with
  | [] => Some dd
  | cols :: r =>
      let first := hd EmptyString cols in
      if starts_with "##" first then vcf_loop choose cfg popinfo r pl dd c
      else if starts_with "#" first then
        let header_cols := wsplit (join (String (ascii_of_nat 9) EmptyString) cols) in
        if (List.length header_cols <=? 9)%nat then None      (* ValueError("No samples in VCF file") *)
        else vcf_loop choose cfg popinfo r (Some (map (fun s => dget s popinfo) (skipn 9 header_cols))) dd c
      else match pl with
           | None => None                                    (* NameError: poplist *)
           | Some poplist =>
               match vcf_line choose cfg poplist cols c with
               | (LErr, _) => None
               | (LSkip, c') => vcf_loop choose cfg popinfo r pl dd c'
               | (LSnp k s, c') => vcf_loop choose cfg popinfo r pl (dset k s dd) c'
               end
           end
  end.

Definition make_data_dict_vcf (choose : nat -> nat -> nat -> list nat) (cfg : vcf_cfg)
    (popinfo_lines : list (list string)) (vcf_lines : list (list string)) : option (dict snp) :=
  match get_popinfo popinfo_lines with
  | None => None
  | Some popinfo => vcf_loop choose cfg popinfo vcf_lines None [] 0
  end.

(** ** count_data_dict *)
Definition ckey := (list nat * list nat * bool)%type.       (* (successful_calls, derived_calls, polarized) *)

Fixpoint list_nat_eqb (a b : list nat) : bool :=
  match a, b with
  | [], [] => true
  | x :: a', y :: b' => (x =? y)%nat && list_nat_eqb a' b'
  | _, _ => false
  end.
Definition ckey_eqb (a b : ckey) : bool :=
  let '(s1, d1, p1) := a in let '(s2, d2, p2) := b in
  list_nat_eqb s1 s2 && list_nat_eqb d1 d2 && Bool.eqb p1 p2.

(** count_dict[key] += 1 on a defaultdict(int) *)
Fixpoint cincr (k : ckey) (cd : list (ckey * nat)) : list (ckey * nat) :=
  match cd with
  | [] => [(k, 1%nat)]
  | (k', n) :: r => if ckey_eqb k' k then (k', S n) :: r else (k', n) :: cincr k r
  end.

Fixpoint calls_for (calls : dict (nat * nat)) (pop_ids : list string) : option (list (nat * nat)) :=
  match pop_ids with
  | [] => Some []
  | p :: r => match dget p calls, calls_for calls r with
              | Some c, Some l => Some (c :: l)
              | _, _ => None                                  (* KeyError *)
              end
  end.

Inductive row_result :=
| RErr
| RSkip                                                      (* not biallelic *)
| RKey (k : ckey).

(** the body of the loop of count_data_dict for one SNP *)
Definition snp_row (pop_ids : list string) (s : snp) : row_result :=
  match s_seg s with
  | [allele1; allele2] =>
      let pol := match s_out s with
                 | Some o => negb (String.eqb o "-") && mem_str o (s_seg s)
                 | None => false
                 end in
      let outg := if pol then match s_out s with Some o => o | None => allele1 end else allele1 in
      match calls_for (s_calls s) pop_ids with
      | None => RErr
      | Some cs =>
          let a1 := map fst cs in
          let a2 := map snd cs in
          let succ := map (fun c => (fst c + snd c)%nat) cs in
          (* allele1 == outgroup -> derived = allele2 calls; elif allele2 == outgroup -> allele1 calls
             (one of the two always holds: outgroup is in segregating or is allele1) *)
          let der := if String.eqb allele1 outg then a2 else a1 in
          RKey (succ, der, pol)
      end
  | _ => RSkip
  end.

Fixpoint count_loop (pop_ids : list string) (vals : list snp) (cd : list (ckey * nat)) : option (list (ckey * nat)) :=
  match vals with
  | [] => Some cd
  | s :: r => match snp_row pop_ids s with
              | RErr => None
              | RSkip => count_loop pop_ids r cd
              | RKey k => count_loop pop_ids r (cincr k cd)
              end
  end.

Definition count_data_dict (dd : dict snp) (pop_ids : list string) : option (list (ckey * nat)) :=
  count_loop pop_ids (map snd dd) [].

(** ** Spectrum._from_count_dict / Spectrum.from_data_dict *)
Section Spectrum.
  Context {F : Type} `{Num F}.
  Local Open Scope num_scope.

  (** a[:,newaxis] * b[newaxis,:] on C-order flat data *)
  Definition kron (a b : list F) : list F := flat_map (fun x => map (fun y => x * y) b) a.
  (** product of the per-population vectors (the code multiplies left to right; exact arithmetic
      does not see the association) *)
  Fixpoint outer (vs : list (list F)) : list F :=
    match vs with
    | [] => [n1]
    | v :: r => kron v (outer r)
    end.

  (** zip(projections, called_by_pop, derived_by_pop) -> _cached_projection(p_to, p_from, hits) *)
  Fixpoint pop_contribs (projs succ der : list nat) : list (list F) :=
    match projs, succ, der with
    | m :: projs', n :: succ', j :: der' => cached_projection m n j :: pop_contribs projs' succ' der'
    | _, _, _ => []
    end.
  Definition snp_contrib (projs succ der : list nat) : list F := outer (pop_contribs projs succ der).

  Definition vadd (a b : list F) : list F := map2 nadd a b.
  Definition vscale (c : F) (a : list F) : list F := map (fun x => c * x) a.
  Definition vzero (L : nat) : list F := repeat n0 L.

  Definition spec_shape (projs : list nat) : list nat := map S projs.

  (** the accumulation loop: fs_total += count * fs_proj *)
  Definition fcd_step (projs : list nat) (polarized : bool) (acc : list F) (e : ckey * nat) : list F :=
    let '((succ, der, pol), cnt) := e in
    if polarized && negb pol then acc
    else vadd acc (vscale (nofnat cnt) (snp_contrib projs succ der)).
  Definition fcd_data (cd : list (ckey * nat)) (projs : list nat) (polarized : bool) : list F :=
    fold_left (fcd_step projs polarized) cd (vzero (size (spec_shape projs))).

  (** None: no population (IndexError on pop_contribs[0]) *)
  Definition from_count_dict (cd : list (ckey * nat)) (projs : list nat) (polarized mask_corners : bool)
    : option (lspec F) :=
    match projs with
    | [] => None
    | _ =>
        let s := spec_shape projs in
        let unf := {| ls_shape := s; ls_folded := false; ls_data := fcd_data cd projs polarized;
                      ls_mask := if mask_corners then tabulate s (is_corner s) else repeat false (size s);
                      ls_ids := None; ls_ex := None |} in
        if polarized then Some unf else fold_ls unf
    end.

  Definition from_data_dict (dd : dict snp) (pop_ids : list string) (projs : list nat)
      (mask_corners polarized : bool) : option (lspec F) :=
    match count_data_dict dd pop_ids with
    | None => None
    | Some cd => from_count_dict cd projs polarized mask_corners
    end.
End Spectrum.

(** ** fragment_data_dict *)
(** chrname, position, add_info of a key:
      chrname, position = '_'.join(k.split('_')[:-1]), k.split('_')[-1]
      if '.' in position: position, add_info = position.split('.', 1)
    None = ValueError of int(position) *)
Definition parse_key (k : string) : option (string * N * option string) :=
  let parts := split "_" k in
  let chrname := join "_" (drop_last parts) in
  let position := last parts EmptyString in
  let '(postxt, add_info) := if has_char "." position then split1 "." position else (position, None) in
  match parse_int postxt with
  | None => None
  | Some p => Some (chrname, p, add_info)
  end.

(** '{0}_{1}'.format(chrname,pos)  /  '{0}_{1}.{2}'.format(chrname,pos,add_info)   (`if not add_info`) *)
Definition format_key (chrname : string) (p : N) (add_info : option string) : string :=
  match add_info with
  | None => chrname ++ "_" ++ show_N p
  | Some EmptyString => chrname ++ "_" ++ show_N p
  | Some a => chrname ++ "_" ++ show_N p ++ "." ++ a
  end.

(** ndd[chrname].append(...) on a defaultdict(list) *)
Definition dappend {V} (k : string) (v : V) (d : dict (list V)) : dict (list V) :=
  match dget k d with
  | None => dset k [v] d
  | Some l => dset k (l ++ [v])%list d
  end.

Fixpoint split_by_chrom (keys : list string) (ndd : dict (list (N * option string)))
  : option (dict (list (N * option string))) :=
  match keys with
  | [] => Some ndd
  | k :: r => match parse_key k with
              | None => None
              | Some (chrname, p, a) => split_by_chrom r (dappend chrname (p, a) ndd)
              end
  end.

(** sorted(list of (int, None | str)): tuples compare by position, then by add_info;
    comparing None with a str is a TypeError *)
Inductive cmp3 := CLt | CGt | CBad.
Fixpoint str_leb (a b : string) : bool :=
  match a, b with
  | EmptyString, _ => true
  | String _ _, EmptyString => false
  | String x a', String y b' =>
      let nx := nat_of_ascii x in let ny := nat_of_ascii y in
      if (nx <? ny)%nat then true else if (ny <? nx)%nat then false else str_leb a' b'
  end.
(** is x <= y ?  (CLt: yes, CGt: no) *)
Definition pos_le (x y : N * option string) : cmp3 :=
  if (fst x <? fst y)%N then CLt
  else if (fst y <? fst x)%N then CGt
  else match snd x, snd y with
       | None, None => CLt
       | Some a, Some b => if str_leb a b then CLt else CGt
       | _, _ => CBad
       end.
Fixpoint insert_sorted (x : N * option string) (l : list (N * option string)) : option (list (N * option string)) :=
  match l with
  | [] => Some [x]
  | y :: r =>
      (* stable: a new element goes after the elements equal to it *)
      match pos_le y x with
      | CBad => None
      | CLt => option_map (cons y) (insert_sorted x r)
      | CGt => Some (x :: l)
      end
  end.
Fixpoint sort_positions (l : list (N * option string)) (acc : list (N * option string))
  : option (list (N * option string)) :=
  match l with
  | [] => Some acc
  | x :: r => match insert_sorted x acc with None => None | Some acc' => sort_positions r acc' end
  end.

(** the chunking loop of one chromosome.  State: finished chunks (in order), the current (last) chunk, [end_].
      while p > end: end += chunk_size; chunk_index += 1; chunks.append([])
    the number of iterations of the while loop is ceil((p - end) / chunk_size), computed in closed form *)
Fixpoint chunk_loop (cs : N) (ps : list (N * option string)) (done : list (list (N * option string)))
    (cur : list (N * option string)) (end_ : N) : list (list (N * option string)) :=
  match ps with
  | [] => (done ++ [cur])%list
  | x :: r =>
      if (end_ <? fst x)%N then
        let k := ((fst x - end_ + cs - 1) / cs)%N in          (* k >= 1 new chunks *)
        chunk_loop cs r (done ++ [cur] ++ repeat [] (N.to_nat k - 1))%list [x] (end_ + k * cs)%N
      else chunk_loop cs r done (cur ++ [x])%list end_
  end.

(** new_dds[-1][key] = dd[key]; None = KeyError *)
Fixpoint chunk_dict (dd : dict snp) (chrname : string) (pos_list : list (N * option string)) (acc : dict snp)
  : option (dict snp) :=
  match pos_list with
  | [] => Some acc
  | (p, a) :: r =>
      let key := format_key chrname p a in
      match dget key dd with
      | None => None
      | Some s => chunk_dict dd chrname r (dset key s acc)
      end
  end.

Fixpoint all_some {A} (l : list (option A)) : option (list A) :=
  match l with
  | [] => Some []
  | None :: _ => None
  | Some x :: r => option_map (cons x) (all_some r)
  end.

(** None: an exception (bad key) or chunk_size = 0 (the Python loop would not terminate) *)
Definition fragment_data_dict (dd : dict snp) (cs : N) : option (list (dict snp)) :=
  if (cs =? 0)%N then None else
  match split_by_chrom (map fst dd) [] with
  | None => None
  | Some ndd =>
      match all_some (map (fun e => option_map (fun ps => (fst e, chunk_loop cs ps [] [] cs))
                                               (sort_positions (snd e) [])) ndd) with
      | None => None
      | Some chunks_dict =>
          all_some (flat_map (fun e => map (fun pos_list => chunk_dict dd (fst e) pos_list []) (snd e)) chunks_dict)
      end
  end.

(** ** bootstraps_from_dd_chunks
    [picks] : the index lists drawn by random.choices(spectra, k=len(spectra)), one per bootstrap *)
Section Boot.
  Context {F : Type} `{Num F}.

  (** functools.reduce(operator.add, chosen) on the data arrays *)
  Definition reduce_add (l : list (list F)) : option (list F) :=
    match l with
    | [] => None                                             (* TypeError: reduce() of empty sequence *)
    | x :: r => Some (fold_left vadd r x)
    end.

  Definition bootstrap_data (spectra : list (list F)) (idx : list nat) : option (list F) :=
    reduce_add (map (fun i => nth i spectra []) idx).

  Definition bootstraps_from_dd_chunks (fragments : list (dict snp)) (picks : list (list nat))
      (pop_ids : list string) (projs : list nat) (mask_corners polarized : bool)
    : option (list (list F)) :=
    match all_some (map (fun dd => from_data_dict (F:=F) dd pop_ids projs mask_corners polarized) fragments) with
    | None => None
    | Some specs => all_some (map (bootstrap_data (map ls_data specs)) picks)
    end.
End Boot.
