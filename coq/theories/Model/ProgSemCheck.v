(** Comparison function used by the generated C15 "concrete semantics" case files: the program translated from the
    current source of a library model function is run by [Model/ProgSem.run_prog] on the [NumDF] instance (128-bit
    software floating point with exact comparisons, fast exponential) at the parameter vector / grid / sample sizes /
    timescale_factor of a call of the REAL function, and compared with the spectrum the real function returned
    (unmasked entries, relative to the largest entry). *)
From Coq Require Import ZArith QArith List Bool.
From Dadi Require Import Base.Num Base.NumQ Base.NumD Model.DFast Model.Equilibrium Model.DSL Model.ProgSem.
Import ListNotations.

Definition z2D := map ZZ2D.
Fixpoint keep {A} (mask : list bool) (l : list A) : list A :=      (* drop masked entries *)
  match mask, l with
  | m :: mt, x :: t => if m then keep mt t else x :: keep mt t
  | [], _ => l
  | _, [] => []
  end.

Record mcase := { mc_prog : prog; mc_params : list Q; mc_pts : nat; mc_grid : list (Z * Z); mc_ns : list nat; mc_tf : Q;
                  mc_mask : list bool; mc_impl : list (Z * Z) }.
Definition prog_fuel : nat := 4000.
Definition mmodel (c : mcase) : option (list D) :=
  @run_prog D NumDF (@ovf_float64 D NumDF) (@quad_geom D NumDF 24 2) prog_fuel (mc_pts c) (z2D (mc_grid c)) (mc_ns c)
            (Q2D (mc_tf c)) (mc_prog c) (map Q2D (mc_params c)).
(** (static check of the program && values agree, log2 of the relative error); error codes 1: the model refuses,
    2: length mismatch, 3: the program fails the static check *)
Definition mcheck (tol : Q) (c : mcase) : bool * Z :=
  if negb (prog_ok (mc_prog c) KInit && ends_in_fs (mc_prog c) KInit) then (false, 3%Z) else
  match mmodel c with
  | Some m => if Nat.eqb (length m) (length (mc_impl c))
              then Dlists_close tol (keep (mc_mask c) m) (keep (mc_mask c) (z2D (mc_impl c)))
              else (false, 2%Z)
  | None => (false, 1%Z)
  end.
