(** Q-side comparison functions used by the generated C08 correspondence files. *)
From Coq Require Import ZArith QArith Qabs List Bool Arith.
From Dadi Require Import Base.Num Base.NumQ Model.Projection.
Import ListNotations.

(** entrywise relative comparison: |impl - model| <= tol |model|; a zero model entry must be exactly zero.
    returns (all ok, max over entries of floor(log2(relative error))) *)
Definition qrel_entry (tol : Q) (model impl : Q) : bool * Z :=
  let dq := Qabs (Qred (impl - model)) in
  if Qeq_bool model 0 then (Qeq_bool impl 0, if Qeq_bool impl 0 then (-10000)%Z else 0%Z)
  else (Qle_bool dq (tol * Qabs model), Qlog2 (Qred (dq / Qabs model))).

Fixpoint qrel_list (tol : Q) (model impl : list Q) (use : list bool) : bool * Z :=
  match model, impl, use with
  | [], [], [] => (true, (-10000)%Z)
  | a :: model', b :: impl', u :: use' =>
      let r := qrel_list tol model' impl' use' in
      if u then let e := qrel_entry tol a b in (fst e && fst r, Z.max (snd e) (snd r)) else r
  | _, _, _ => (false, 0%Z)
  end.

(** ** weights: Numerics._cached_projection(proj_to, proj_from, hits) *)
Record wcase := { wc_to : nat; wc_from : nat; wc_hits : nat; wc_impl : list Q }.
Definition wcheck (tol : Q) (c : wcase) : bool * Z :=
  let model := cached_projection (F:=Q) (wc_to c) (wc_from c) (wc_hits c) in
  qrel_list tol model (wc_impl c) (repeat true (length model)).

(** ** Spectrum.project on (data, mask, folded flag) *)
Record scase (d : nat) := {
  sc_ns : list nat; sc_folded : bool; sc_x : tens Q d; sc_mk : tens bool d;
  sc_raises : bool;                       (* the implementation raised ValueError *)
  sc_oshape : list nat; sc_ox : list Q; sc_omk : list bool   (* implementation output: shape, flat data, flat mask *)
}.
Arguments sc_ns {d}. Arguments sc_folded {d}. Arguments sc_x {d}. Arguments sc_mk {d}. Arguments sc_raises {d}.
Arguments sc_oshape {d}. Arguments sc_ox {d}. Arguments sc_omk {d}.

Fixpoint beq_list (a b : list bool) : bool :=
  match a, b with [], [] => true | x :: a', y :: b' => Bool.eqb x y && beq_list a' b' | _, _ => false end.
Fixpoint neq_list (a b : list nat) : bool :=
  match a, b with [], [] => true | x :: a', y :: b' => Nat.eqb x y && neq_list a' b' | _, _ => false end.

Definition scheck (d : nat) (tol : Q) (c : scase d) : bool * Z :=
  match project (F:=Q) d (sc_ns c) (sc_folded c) (sc_x c) (sc_mk c) with
  | None => (sc_raises c, (-10000)%Z)
  | Some (x', mk') =>
      if sc_raises c then (false, 0%Z)
      else
        let fm := tflat d mk' in
        let r := qrel_list tol (tflat d x') (sc_ox c) (map negb fm) in
        (neq_list (tshape d x') (sc_oshape c) && beq_list fm (sc_omk c) && fst r, snd r)
  end.

(** ** mask-only evaluation of Spectrum.project (large sample sizes)
    The mask of [project] never depends on the data (only on its shape), and the mask coefficients [pmask] are the
    cheap window test; running [project] on Q recomputes three binomials per (target, source) pair, which is not
    affordable for sample sizes in the hundreds.  [project_mask] is the mask component alone, reading the sample
    sizes off the mask array; Proofs/ProjMaskOnly.v proves it equal to the mask [project] returns
    ([project_mask_is_project]), so comparing the implementation's mask with [project_mask] is comparing it with the model. *)
Fixpoint mask_loop (d ax : nat) (ns orig : list nat) (mk : tens bool d) : option (tens bool d) :=
  match ns, orig with
  | [], _ => Some mk
  | m :: ns', n :: orig' =>
      if (m =? n)%nat then mask_loop d (S ax) ns' orig' mk
      else if (n <? m)%nat then None
      else mask_loop d (S ax) ns' orig' (proj_axis false orb d ax (pmask n m) m mk)
  | _ :: _, [] => None
  end.

Definition project_mask (d : nat) (ns : list nat) (folded : bool) (mk : tens bool d) : option (tens bool d) :=
  let ss := sample_sizes d mk in
  if negb (length ns =? d)%nat then None
  else if existsb (fun p => (snd p <? fst p)%nat) (combine ns ss) then None
  else
    let m0 := if folded then unfold_mask d mk else mk in
    match mask_loop d 0 ns ss m0 with
    | None => None
    | Some m1 => Some (if folded then fold_mask d m1 else m1)
    end.

Record mcase (d : nat) := {
  mc_ns : list nat; mc_folded : bool; mc_mk : tens bool d;
  mc_raises : bool; mc_oshape : list nat; mc_omk : list bool   (* implementation: raised?, output shape, flat output mask *)
}.
Arguments mc_ns {d}. Arguments mc_folded {d}. Arguments mc_mk {d}. Arguments mc_raises {d}.
Arguments mc_oshape {d}. Arguments mc_omk {d}.

Definition mcheck (d : nat) (c : mcase d) : bool * Z :=
  match project_mask d (mc_ns c) (mc_folded c) (mc_mk c) with
  | None => (mc_raises c, (-10000)%Z)
  | Some mk' =>
      if mc_raises c then (false, 0%Z)
      else (neq_list (tshape d mk') (mc_oshape c) && beq_list (tflat d mk') (mc_omk c), (-10000)%Z)
  end.
