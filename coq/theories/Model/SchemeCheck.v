(** Comparison functions used by the C02/C03/C04 correspondence files.
    Inputs arrive as exact rationals (the float64 values of the implementation); the Num-polymorphic
    model is run on the [NumD] instance (220-bit software floating point, exact comparisons) because
    exact rationals blow up over chains of tridiagonal solves; results are compared over Q. *)
From Coq Require Import ZArith QArith Qabs List.
From Dadi Require Import Base.Num Base.NumQ Base.NumD Model.Tridiag Model.Scheme Model.NDSweep.
Import ListNotations.

Definition qpop := @pop Q.
Definition pop2D (p : qpop) : @pop D :=
  {| p_nu := Q2D (p_nu p); p_gamma := Q2D (p_gamma p); p_h := Q2D (p_h p); p_beta := Q2D (p_beta p);
     p_ms := map Q2D (p_ms p); p_frozen := p_frozen p; p_nomut := p_nomut p |}.
Definition l2D := map Q2D.
Definition l2Q := map D2Q.
Definition z2D := map ZZ2D.

Record kcase := { kc_shape : list nat; kc_grids : list (list Q); kc_pop : qpop; kc_k : nat;
                  kc_dt : Q; kc_delj : bool; kc_phi : list (Z * Z); kc_impl : list (Z * Z) }.
Definition kmodel (c : kcase) : list D :=
  let grids := map l2D (kc_grids c) in
  (map_lines (kc_shape c) grids (kc_k c)
            (fun os line => sweep_line grids (pop2D (kc_pop c)) (kc_k c) os (Q2D (kc_dt c)) (kc_delj c) line) (z2D (kc_phi c))).
Definition kcheck (tol : Q) (c : kcase) : bool * Z := Dlists_close tol (kmodel c) (z2D (kc_impl c)).

Record pcase := { pc_shape : list nat; pc_k : nat; pc_a : list (Z * Z); pc_b : list (Z * Z); pc_c : list (Z * Z); pc_dt : Q;
                  pc_phi : list (Z * Z); pc_impl : list (Z * Z) }.
Definition pcheck (tol : Q) (c : pcase) : bool * Z :=
  Dlists_close tol (precalc_sweep (pc_shape c) (pc_k c) (z2D (pc_a c)) (z2D (pc_b c)) (z2D (pc_c c)) (Q2D (pc_dt c)) (z2D (pc_phi c))) (z2D (pc_impl c)).

Record tcase := { tc_rows : list (Q * Q * Q * Q); tc_impl : list Q }.
Definition tcheck (tol : Q) (c : tcase) : bool * Z :=
  Dlists_close tol (thomas (map (fun r => let '(a, b, c, d) := r in (Q2D a, Q2D b, Q2D c, Q2D d)) (tc_rows c))) (l2D (tc_impl c)).

(** drivers: base populations, slopes of nu(t) = nu + s t and theta(t) = theta0 + s t, mode *)
Record dcase := { dc_shape : list nat; dc_grid : list Q; dc_pops : list qpop; dc_nuslopes : list Q;
                  dc_theta0 : Q; dc_thslope : Q; dc_tf : Q; dc_delj : bool; dc_T : Q; dc_tdep : bool;
                  dc_phi : list (Z * Z); dc_impl : list (Z * Z) }.
Definition set_nu {F} (p : @pop F) (v : F) : @pop F :=
  {| p_nu := v; p_gamma := p_gamma p; p_h := p_h p; p_beta := p_beta p; p_ms := p_ms p;
     p_frozen := p_frozen p; p_nomut := p_nomut p |}.
Definition dmodel (c : dcase) : option (list D) :=
  let d := length (dc_shape c) in
  let grids := repeat (l2D (dc_grid c)) d in
  let pops := map pop2D (dc_pops c) in
  let popsf (t : D) := map (fun ps => set_nu (fst ps) (nadd (p_nu (fst ps)) (nmul (snd ps) t))) (combine pops (l2D (dc_nuslopes c))) in
  let thetaf (t : D) := nadd (Q2D (dc_theta0 c)) (nmul (Q2D (dc_thslope c)) t) in
  (if dc_tdep c then integrate_tdep 5000 (dc_shape c) grids popsf thetaf (Q2D (dc_tf c)) (dc_delj c) n0 (Q2D (dc_T c)) (z2D (dc_phi c))
   else integrate_const 5000 (dc_shape c) grids pops (Q2D (dc_theta0 c)) (Q2D (dc_tf c)) (dc_delj c) n0 (Q2D (dc_T c)) (z2D (dc_phi c))).
Definition dcheck (tol : Q) (c : dcase) : bool * Z :=
  match dmodel c with
  | Some m => Dlists_close tol m (z2D (dc_impl c))
  | None => (false, 1%Z)
  end.

(** C02, hypothesis of the solve theorems evaluated on the generated cases: per line of a kernel case, does the
    cell-Peclet condition of [Proofs/Pivots.v] hold (atemp, ctemp >= 0 on every cell), are all Thomas pivots
    positive, are they all non-zero.  Result: (every line has non-zero pivots and every line meeting the
    condition has positive pivots, number of lines meeting the condition). *)
Definition flagline (b : bool) (len : nat) : list D := repeat (if b then n1 else n0) len.
(** one pass per line: the pivots of a line are computed once; the line's entries carry the code
    (1 if the Peclet condition holds on the line) + (2 if the line is in order: pivots all non-zero, and all positive
    when the condition holds). *)
Definition kpiv (c : kcase) : bool * Z :=
  let grids := map l2D (kc_grids c) in
  let p := pop2D (kc_pop c) in
  let k := kc_k c in
  let xs := nth k grids [] in
  let N := length xs in
  let dt := Q2D (kc_dt c) in
  let Vf := Vfunc_beta (p_nu p) (p_beta p) in
  let Mf os := Mfunc (p_ms p) os (p_gamma p) (p_h p) in
  let pec os := forallb (fun i => nleb n0 (atemp xs Vf (Mf os) (kc_delj c) i) && nleb n0 (ctemp xs Vf (Mf os) (kc_delj c) i)) (seq 0 (N - 1)) in
  let pivs os line := all_pivots (line_rows xs Vf (Mf os) (p_nu p) (all_eq n0 os) (all_eq n1 os) dt (kc_delj c) line) in
  let phi := z2D (kc_phi c) in
  let n2 : D := nadd n1 n1 in
  let n3 : D := nadd n2 n1 in
  let code os line :=
    let pv := pivs os line in
    let pe := pec os in
    let nz := forallb (fun b => negb (nleb n0 b && nleb b n0)) pv in
    let good := nz && (if pe then forallb (fun b => nltb n0 b) pv else true) in
    repeat (nadd (if pe then n1 else n0) (if good then n2 else n0)) N in
  let f := map_lines (kc_shape c) grids k code phi in
  let is_good (x : D) := nleb n2 x in
  let is_pec (x : D) := (nleb n1 x && negb (nleb n2 x)) || nleb n3 x in
  (forallb is_good f, Z.of_nat (length (filter is_pec f))).
