(** Q-side comparison functions used by the generated C19 correspondence files. *)
From Coq Require Import ZArith QArith Qabs Qreduction List Bool.
From Dadi Require Import Base.Num Base.NumQ Model.Godambe.
Import ListNotations.
Open Scope Q_scope.

Definition qabs (x : Q) : Q := Qabs x.
Definition qsum (l : list Q) : Q := fold_right (fun x a => Qred (x + a)) 0 l.
Definition qmax (a b : Q) : Q := if Qle_bool a b then b else a.
Definition qnz (x : Q) : Q := if Qle_bool x 0 then 1 else x.
Definition nthQ (i : nat) (l : list Q) : Q := nth i l 0.
Definition nthL (i : nat) (l : list (list Q)) : list Q := nth i l [].
Definition idx (n : nat) : list nat := seq 0 n.
Definition same_shape (n : nat) (M : list (list Q)) : bool :=
  Nat.eqb (length M) n && forallb (fun r => Nat.eqb (length r) n) M.

(** entrywise comparison with an entry-dependent allowance:
      |a - b| <= rel * |b| + allow ;  returns (all ok, max over entries of |a-b| / unit) where [unit] is the
      conditioning scale of that entry (so the reported number is comparable with the constant K) *)
Definition cmp1 (rel : Q) (a b allow unit : Q) : bool * Q :=
  let d := Qabs (Qred (a - b)) in
  (Qle_bool d (Qred (rel * Qabs b + allow)), Qred (d / qnz unit)).
Definition merge (x y : bool * Q) : bool * Q := (fst x && fst y, qmax (snd x) (snd y)).
Definition mergel (l : list (bool * Q)) : bool * Q := fold_right merge (true, 0) l.
Definition fin (r : bool * Q) : bool * Z := (fst r, Qlog2 (snd r)).

(** ** test functions (quadratic / linear polynomials) through get_hess / get_grad / hessian_elem *)
Record hcase := {
  hc_c : Q; hc_lin : list (Q * nat); hc_qd : list (Q * (nat * nat));
  hc_p : list Q; hc_eps : Q;
  hc_direct : option (list Q * list bool);   (* hessian_elem called directly with these steps / flags *)
  hc_hess : list (list Q);                   (* implementation *)
  hc_grad : option (list Q) }.

(** sum of the absolute values of all monomials at |p_k| + 2 |step_k| *)
Definition hscale (c : hcase) (es : list Q) : Q :=
  let X := fun k => Qred (Qabs (nthQ k (hc_p c)) + 2 * Qabs (nthQ k es)) in
  Qred (Qabs (hc_c c) + qsum (map (fun m => Qabs (fst m) * X (snd m)) (hc_lin c))
        + qsum (map (fun m => Qabs (fst m) * X (fst (snd m)) * X (snd (snd m))) (hc_qd c))).

Definition hsteps (c : hcase) : list Q * list bool :=
  match hc_direct c with
  | Some d => d
  | None => let st := map (step_rule (hc_eps c)) (hc_p c) in (map fst st, map snd st)
  end.

Definition hmodel (c : hcase) : list (list Q) :=
  let f := quadm (hc_c c) (hc_lin c) (hc_qd c) in
  match hc_direct c with
  | Some (es, os) => let n := length (hc_p c) in
      map (fun r => map (fun cc => hess_elem f (f (hc_p c)) (hc_p c) r cc es os) (idx n)) (idx n)
  | None => get_hess f (hc_p c) (hc_eps c)
  end.

(** K : absolute allowance in units of the conditioning scale; rel : relative allowance *)
Definition hcheck (K rel : Q) (c : hcase) : bool * Z :=
  let n := length (hc_p c) in
  let es := fst (hsteps c) in
  let S := hscale c es in
  let M := hmodel c in
  let hess_ok :=
    mergel (map (fun r => mergel (map (fun cc =>
       let unit := Qred (S / qnz (Qabs (nthQ r es) * Qabs (nthQ cc es))) in
       cmp1 rel (nthQ cc (nthL r (hc_hess c))) (nthQ cc (nthL r M)) (K * unit) unit) (idx n))) (idx n)) in
  (* the conclusion of hess_exact_on_quadratics, evaluated on the Q instance *)
  let exact_ok := forallb (fun r => forallb (fun cc => Qeq_bool (nthQ cc (nthL r M)) (quad_d2 (hc_qd c) r cc)) (idx n)) (idx n) in
  let grad_ok :=
    match hc_grad c with
    | None => (true, 0)
    | Some gi =>
      let G := get_grad (quadm (hc_c c) (hc_lin c) (hc_qd c)) (hc_p c) (hc_eps c) in
      merge (Nat.eqb (length gi) n, 0)
        (mergel (map (fun i => let unit := Qred (S / qnz (Qabs (nthQ i es))) in
                               cmp1 rel (nthQ i gi) (nthQ i G) (K * unit) unit) (idx n)))
    end in
  fin (merge (same_shape n (hc_hess c) && exact_ok, 0) (merge hess_ok grad_ok)).

(** ** get_godambe on Poisson likelihoods of (multi)linear models *)
Record pcase := {
  pc_Bs : list (list Q); pc_aug : bool; pc_nest : option (list Q * list nat); pc_log : bool;
  pc_p0 : list Q; pc_eps : Q;
  pc_data : @pdata Q; pc_boots : list (@pdata Q);
  pc_H : list (list Q); pc_J : option (list (list Q) * list Q) }.

Definition pll (c : pcase) (dt : @pdata Q) : list Q -> Q :=
  let f := pois_ll (model_mean (pc_Bs c) (pc_aug c) (pc_nest c)) dt in
  if pc_log c then log_wrap f else f.
Definition pstart (c : pcase) : list Q := if pc_log c then map Qln (pc_p0 c) else pc_p0 c.

(** magnitude of the terms of the log-likelihood at the expansion point (times 2 for the displaced points) *)
Definition lscale (c : pcase) (dt : @pdata Q) : Q :=
  let m := model_mean (pc_Bs c) (pc_aug c) (pc_nest c) (pc_p0 c) in
  (* |ln x| <= |floor(log2 x)| + 1 : cheap upper bound, no series evaluation *)
  Qred (2 * qsum (map (fun t => let mi := Qred (pd_adj dt * fst (fst t)) in
                                Qabs mi + Qabs (snd (fst t)) * (inject_Z (Z.abs (Qlog2 mi)) + 1) + Qabs (snd t))
                      (combine (combine m (pd_d dt)) (pd_g dt)))).

Definition pcheck (K rel : Q) (c : pcase) : bool * Z :=
  let p := pstart c in
  let n := length p in
  let st := map (step_rule (pc_eps c)) p in
  let es := map (fun s => Qabs (fst s)) st in
  let res := godambe_HJc (pll c) p (pc_eps c) (pc_data c) (pc_boots c) in
  let Hm := fst (fst res) in
  let L := lscale c (pc_data c) in
  let hess_ok :=
    mergel (map (fun r => mergel (map (fun cc =>
       let unit := Qred (L / qnz (nthQ r es * nthQ cc es)) in
       cmp1 rel (nthQ cc (nthL r (pc_H c))) (nthQ cc (nthL r Hm)) (K * unit) unit) (idx n))) (idx n)) in
  let j_ok :=
    match pc_J c with
    | None => (true, 0)
    | Some (Ji, cUi) =>
      let Lmax := Qmaxl (map (lscale c) (pc_boots c)) in
      (* allowance of entry i of any bootstrap gradient: K * Lmax / e_i ;  |g_bi| enters through
         mean_b |g_bi| <= sqrt(J_ii) <= max(1, J_ii) *)
      let tg := fun (i : nat) => Qred (K * Lmax / qnz (nthQ i es)) in
      let ug := fun (i : nat) => Qred (Lmax / qnz (nthQ i es)) in
      let jm := snd (fst res) in let cm := snd res in
      let rt := fun (i : nat) => qmax 1 (nthQ i (nthL i jm)) in
      merge (same_shape n Ji && Nat.eqb (length cUi) n, 0)
      (merge
        (mergel (map (fun r => mergel (map (fun cc =>
           let allow := Qred (rt r * tg cc + rt cc * tg r + tg r * tg cc) in
           let unit := Qred (rt r * ug cc + rt cc * ug r + K * ug r * ug cc) in
           cmp1 rel (nthQ cc (nthL r Ji)) (nthQ cc (nthL r jm)) allow unit) (idx n))) (idx n)))
        (mergel (map (fun i => cmp1 rel (nthQ i cUi) (nthQ i cm) (tg i) (ug i)) (idx n))))
    end in
  fin (merge (same_shape n (pc_H c), 0) (merge hess_ok j_ok)).

(** a nested index listed twice: the model's Hessian must agree with the implementation's and be singular
    (diff_func ignores the value at the first of the two positions: [scatter] lets the last assignment win) *)
Definition pcheck_singular (K rel : Q) (c : pcase) : bool * Z :=
  let r := pcheck K rel c in
  let Hm := fst (fst (godambe_HJc (pll c) (pstart c) (pc_eps c) (pc_data c) [])) in
  (fst r && match mat_inv Hm with None => true | Some _ => false end, snd r).

(** truncation error of the model's finite differences against the closed forms, at eps and eps/2
    (pure linear model, all parameters on the central branch): exact arithmetic, so no round-off.
      err(eps) <= C * eps^2 * scale   and   err(eps/2) <= 3/10 * err(eps)   entry by entry
    (scale: sum_i d_i |b_k b_l| / m_i^2 for the Hessian, sum_i (d_i/m_i + adj) |b_k| for the gradient) *)
Definition closed_scale_h (Bs : list (list Q)) (dt : @pdata Q) (theta : list Q) (k l : nat) : Q :=
  qsum (map (fun t => Qabs (snd (fst t) * nthQ k (fst (fst t)) * nthQ l (fst (fst t))
                             / (ndot theta (fst (fst t)) * ndot theta (fst (fst t)))))
            (combine (combine Bs (pd_d dt)) (pd_g dt))).
Definition closed_scale_g (Bs : list (list Q)) (dt : @pdata Q) (theta : list Q) (k : nat) : Q :=
  qsum (map (fun t => (Qabs (snd (fst t) / ndot theta (fst (fst t))) + pd_adj dt) * Qabs (nthQ k (fst (fst t))))
            (combine (combine Bs (pd_d dt)) (pd_g dt))).

Definition tcheck (C : Q) (c : pcase) : bool * Z :=
  let p := pc_p0 c in let n := length p in
  let e1 := pc_eps c in let e2 := Qred (e1 / 2) in
  let f := pois_ll (lin_mean (pc_Bs c)) in
  let central := forallb (fun x => negb (Qeq_bool x 0) && negb (snd (step_rule e2 x))) p in
  let H1 := get_hess (f (pc_data c)) p e1 in
  let H2 := get_hess (f (pc_data c)) p e2 in
  let herr := fun Hx r cc => Qabs (Qred (nthQ cc (nthL r Hx) - pois_hess (pc_Bs c) (pc_data c) p r cc)) in
  let hres := mergel (map (fun r => mergel (map (fun cc =>
      let sc := closed_scale_h (pc_Bs c) (pc_data c) p r cc in
      (Qle_bool (herr H1 r cc) (Qred (C * e1 * e1 * sc)) && Qle_bool (herr H2 r cc) (Qred ((3 # 10) * herr H1 r cc)),
       Qred (herr H1 r cc / qnz (e1 * e1 * sc)))) (idx n))) (idx n)) in
  let gres := mergel (map (fun bt =>
      let G1 := get_grad (f bt) p e1 in let G2 := get_grad (f bt) p e2 in
      let gerr := fun Gx k => Qabs (Qred (nthQ k Gx - pois_grad (pc_Bs c) bt p k)) in
      mergel (map (fun k => let sc := closed_scale_g (pc_Bs c) bt p k in
        (Qle_bool (gerr G1 k) (Qred (C * e1 * e1 * sc)) && Qle_bool (gerr G2 k) (Qred ((3 # 10) * gerr G1 k)),
         Qred (gerr G1 k / qnz (e1 * e1 * sc)))) (idx n))) (firstn 2 (pc_boots c))) in
  fin (merge (central, 0) (merge hres gres)).

(** ** the statistics built from (H, J, cU): exact linear algebra on the matrices the implementation produced *)
Record scase := {
  sc_kind : nat;    (* 0 godambe matrix (flattened) | 1 GIM_uncert | 2 FIM_uncert | 3 LRT_adjust | 4 Wald (adj, org) | 5 score (adj, org)
                       | 6 Wald (adj, org) from the caller's (theta_opt, p0, nested_indices, full_params) *)
  sc_H : list (list Q); sc_J : list (list Q); sc_cU : list Q; sc_d : list Q;
  sc_vals : list Q;
  sc_theta : option Q; sc_p0 : list Q; sc_idx : list nat; sc_full : list Q }.

Definition sexpected (c : scase) : option (list Q) :=
  match sc_kind c with
  | 0%nat => match gim (sc_H c) (sc_J c) with Some G => Some (concat G) | None => None end
  | 1%nat => match gim (sc_H c) (sc_J c) with Some G => var_of G | None => None end
  | 2%nat => var_of (sc_H c)
  | 3%nat => match lrt_adjust (sc_H c) (sc_J c) with Some a => Some [a] | None => None end
  | 4%nat => match gim (sc_H c) (sc_J c) with Some G => Some [qform G (sc_d c); qform (sc_H c) (sc_d c)] | None => None end
  | 5%nat => match score_stat (sc_H c) (sc_J c) (sc_cU c) with Some ao => Some [fst ao; snd ao] | None => None end
  | 6%nat => match wald_diff (sc_theta c) (sc_p0 c) (sc_idx c) (sc_full c) with
             | Some d => match wald_stat (sc_H c) (sc_J c) d with Some ao => Some [fst ao; snd ao] | None => None end
             | None => None end
  | _ => None
  end.

Definition scheck (rel : Q) (c : scase) : bool * Z :=
  match sexpected c with
  | None => (false, 0%Z)
  | Some ex =>
    (* uncertainties are compared through their squares *)
    let got := match sc_kind c with 1%nat | 2%nat => map (fun u => Qred (u * u)) (sc_vals c) | _ => sc_vals c end in
    let s := qnz (Qabsmax ex) in
    let d := Qmaxdiff got ex in
    (Qle_bool d (rel * s) && Nat.eqb (length got) (length ex), Qlog2 (Qred (d / s)))
  end.
