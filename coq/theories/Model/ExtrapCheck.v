(** Q-side comparison functions used by the C07 correspondence files. *)
From Coq Require Import ZArith QArith Qabs List.
From Dadi Require Import Base.Num Base.NumQ Model.Extrap.
Import ListNotations.

Record xcase := { xc_log : bool; xc_fm : Q; xc_xs : list Q; xc_ys : list Q; xc_impl : Q }.

(** conditioning scale of the Lagrange sum: sum_i |w_i y_i| (in log mode: of the log data, times |result|) *)
Definition xscale (c : xcase) : Q :=
  let ys' := if xc_log c then map Qln (xc_ys c) else xc_ys c in
  let s := fold_right Qplus 0 (map (fun p => Qabs (lag0_weight (xc_xs c) (fst p) * snd p)) (combine (xc_xs c) ys')) in
  if xc_log c then (1 + s) * Qabs (xc_impl c) else s + Qabs (xc_impl c).

Definition xcheck (tol : Q) (c : xcase) : bool * Z :=
  match extrap_full (xc_log c) (xc_fm c) (xc_xs c) (xc_ys c) with
  | None => (false, 0%Z)
  | Some m => let d := Qabs (Qred (m - xc_impl c)) in
              let s := xscale c in
              let s := if Qle_bool s 0 then 1 else s in
              (Qle_bool d (tol * s), Qlog2 (Qred (d / s)))
  end.

(** ** batched form: many data sets (entries of a result, calls of one wrapped function) on ONE node list.
    The Lagrange weights are computed once per batch and the logarithms once per data set; the model value is
    [extrap_full_pre], which is [extrap_full] (Proofs/ExtrapAll.v [extrap_full_pre_eq], Props/C07.v
    [C07_batched_check_is_the_model]); scale and acceptance test are those of [xcheck].
    Result: [(true, worst log2 relative error)] when every item agrees, else [(false, index of the first item that does not)]. *)
Record xbatch := { xb_log : bool; xb_fm : Q; xb_xs : list Q; xb_items : list (list Q * Q) }.

Definition xitem_check (tol : Q) (logm : bool) (fm : Q) (xs ws : list Q) (it : list Q * Q) : bool * Z :=
  let ys := fst it in let impl := snd it in
  let ys' := if logm then map Qln ys else ys in
  match extrap_full_pre logm fm xs ws ys ys' with
  | None => (false, 0%Z)
  | Some m => let d := Qabs (Qred (m - impl)) in
              let s0 := fold_right Qplus 0 (map (fun p => Qabs (fst p * snd p)) (combine ws ys')) in
              let s := if logm then (1 + s0) * Qabs impl else s0 + Qabs impl in
              let s := if Qle_bool s 0 then 1 else s in
              (Qle_bool d (tol * s), Qlog2 (Qred (d / s)))
  end.

Fixpoint xbatch_items (tol : Q) (logm : bool) (fm : Q) (xs ws : list Q) (its : list (list Q * Q)) (i : Z) (worst : option Z) : bool * Z :=
  match its with
  | [] => (true, match worst with Some w => w | None => (-1074)%Z end)
  | it :: t => let r := xitem_check tol logm fm xs ws it in
               if fst r then xbatch_items tol logm fm xs ws t (i + 1)%Z
                               (Some (match worst with Some w => Z.max w (snd r) | None => snd r end))
               else (false, i)
  end.

Definition xcheck_batch (tol : Q) (c : xbatch) : bool * Z :=
  let xs := xb_xs c in
  xbatch_items tol (xb_log c) (xb_fm c) xs (map (lag0_weight xs) xs) (xb_items c) 0%Z None.

(** ** the closed formulas called directly (Numerics.linear_extrap ... quintic_extrap): no logarithm, no fallback.
    Model value: [extrap_entry_w] on the weights of the node list, which is [extrap_entry] (Proofs/ExtrapAll.v
    [extrap_entry_w_eq], Props/C07.v [C07_direct_check_is_the_model]); [xb_log] and [xb_fm] of the batch are not used. *)
Definition xdirect_item_check (tol : Q) (xs ws : list Q) (it : list Q * Q) : bool * Z :=
  let ys := fst it in let impl := snd it in
  match extrap_entry_w xs ws ys with
  | None => (false, 0%Z)
  | Some m => let d := Qabs (Qred (m - impl)) in
              let s0 := fold_right Qplus 0 (map (fun p => Qabs (fst p * snd p)) (combine ws ys)) in
              let s := s0 + Qabs impl in
              let s := if Qle_bool s 0 then 1 else s in
              (Qle_bool d (tol * s), Qlog2 (Qred (d / s)))
  end.

Fixpoint xdirect_items (tol : Q) (xs ws : list Q) (its : list (list Q * Q)) (i : Z) (worst : option Z) : bool * Z :=
  match its with
  | [] => (true, match worst with Some w => w | None => (-1074)%Z end)
  | it :: t => let r := xdirect_item_check tol xs ws it in
               if fst r then xdirect_items tol xs ws t (i + 1)%Z
                               (Some (match worst with Some w => Z.max w (snd r) | None => snd r end))
               else (false, i)
  end.

Definition xcheck_direct_batch (tol : Q) (c : xbatch) : bool * Z :=
  let xs := xb_xs c in
  xdirect_items tol xs (map (lag0_weight xs) xs) (xb_items c) 0%Z None.

(** typed node lists of the generated cases: [XInt z] for a spacing the caller wrote as an integer, [XNum q] for a float *)
Definition xnodes (vs : list (@xval Q)) : list Q := map xnum vs.
