(** Q-side comparison functions used by the C07 correspondence files. *)
From Coq Require Import ZArith QArith Qabs List.
From Dadi Require Import Base.Num Base.NumQ Model.Extrap.
Import ListNotations.

Record xcase := { xc_log : bool; xc_fm : Q; xc_xs : list Q; xc_ys : list Q; xc_impl : Q }.

(** conditioning scale of the Lagrange sum: sum_i |w_i y_i| (in log mode: of the log data, times |result|) *)
Definition xscale (c : xcase) : Q :=
  let ys' := if xc_log c then map Qln (xc_ys c) else xc_ys c in
  let s := fold_right Qplus 0 (map (fun p => Qabs (lag0_weight (xc_xs c) (fst p) * snd p)) (combine (xc_xs c) ys')) in
  if xc_log c then (1 + s) * Qabs (xc_impl c) else s + Qabs (xc_impl c).

Definition xcheck (tol : Q) (c : xcase) : bool * Z :=
  match extrap_full (xc_log c) (xc_fm c) (xc_xs c) (xc_ys c) with
  | None => (false, 0%Z)
  | Some m => let d := Qabs (Qred (m - xc_impl c)) in
              let s := xscale c in
              let s := if Qle_bool s 0 then 1 else s in
              (Qle_bool d (tol * s), Qlog2 (Qred (d / s)))
  end.
