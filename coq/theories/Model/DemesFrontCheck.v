(** Q-side comparison of the model's program with the call sequence logged from the real importer (C16). *)
From Coq Require Import ZArith QArith Qabs List Bool Arith.
From Dadi Require Import Base.Num Base.NumQ Model.DemesFront.
Import ListNotations.

(** a logged call: function, T, per nu argument (was it a callable?, [(t, value at t)]), numeric arguments
    (migration rates in the order m12, m13, ... / proportions), frozen flags, integer arguments, deme ids *)
Record lcall := mkL { l_fn : fname; l_T : Q; l_nus : list (bool * list (Q * Q)); l_fs : list Q; l_fr : list bool;
                      l_ns : list nat; l_ids : list nat }.

Definition Qmax2 (a b : Q) : Q := if Qle_bool a b then b else a.
(** relative distance of two numbers (0 when both are 0) *)
Definition rel_err (a b : Q) : Q :=
  let d := Qabs (Qred (a - b)) in
  let s := Qmax2 (Qabs a) (Qabs b) in
  if Qle_bool s 0 then 0 else Qred (d / s).

Fixpoint max_rel (a b : list Q) : option Q :=
  match a, b with
  | [], [] => Some 0
  | x :: a', y :: b' => match max_rel a' b' with Some r => Some (Qmax2 (rel_err x y) r) | None => None end
  | _, _ => None
  end.

Definition nu_err (m : sizefn Q) (l : bool * list (Q * Q)) : option Q :=
  if Bool.eqb (sf_is_fun m) (fst l)
  then Some (fold_right (fun tv r => Qmax2 (rel_err (sf_eval m (fst tv)) (snd tv)) r) 0 (snd l))
  else None.
Fixpoint nus_err (ms : list (sizefn Q)) (ls : list (bool * list (Q * Q))) : option Q :=
  match ms, ls with
  | [], [] => Some 0
  | m :: ms', l :: ls' => match nu_err m l, nus_err ms' ls' with Some a, Some b => Some (Qmax2 a b) | _, _ => None end
  | _, _ => None
  end.
Fixpoint bools_eqb (a b : list bool) : bool :=
  match a, b with
  | [], [] => true
  | x :: a', y :: b' => Bool.eqb x y && bools_eqb a' b'
  | _, _ => false
  end.

(** None: structural mismatch; Some e: largest relative error of the numeric arguments *)
Definition call_err (m : call Q) (l : lcall) : option Q :=
  if fname_eqb (c_fn m) (l_fn l) && bools_eqb (c_fr m) (l_fr l) && list_eqb (c_ns m) (l_ns l) && list_eqb (c_ids m) (l_ids l)
  then match nus_err (c_nus m) (l_nus l), max_rel (c_fs m) (l_fs l) with
       | Some a, Some b => Some (Qmax2 (rel_err (c_T m) (l_T l)) (Qmax2 a b))
       | _, _ => None
       end
  else None.

(** (true, log2 of the largest relative error) or (false, 1000 + index of the first call that differs) *)
Fixpoint prog_err (k : Z) (ms : list (call Q)) (ls : list lcall) (acc : Q) : bool * Q * Z :=
  match ms, ls with
  | [], [] => (true, acc, k)
  | m :: ms', l :: ls' =>
    match call_err m l with
    | Some e => prog_err (k + 1) ms' ls' (Qmax2 e acc)
    | None => (false, acc, k)
    end
  | _, _ => (false, acc, k)
  end.

Definition check_prog (tol : Q) (c : list (call Q) * list lcall) : bool * Z :=
  let '(ok, e, k) := prog_err 0 (fst c) (snd c) 0 in
  if ok then (Qle_bool e tol, Qlog2 e) else (false, (1000 + k)%Z).

(** is the model's program an error program? *)
Definition is_error_prog (p : list (call Q)) : bool :=
  existsb (fun c => match c_fn c with F_error _ => true | _ => false end) p.

(** the theorems' conclusions evaluated on the Q instance: frozen flag i = (deme i is a frozen deme), for every
    integration call of the program *)
Definition frozen_ok (frozen : list nat) (p : list (call Q)) : bool :=
  forallb (fun c => match c_fn c with
                    | F_one_pop | F_two_pops | F_three_pops | F_four_pops | F_five_pops =>
                        bools_eqb (c_fr c) (map (fun id => mem id frozen) (c_ids c))
                    | _ => true end) p.

(** the implementation raised: the model must refuse as well *)
Definition check_refusal (c : list (call Q) * list lcall) : bool * Z := (is_error_prog (fst c), 0%Z).
