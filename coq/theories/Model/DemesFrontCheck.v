(** Q-side comparison of the model's program with the call sequence logged from the real importer (C16). *)
From Coq Require Import ZArith QArith Qabs List Bool Arith.
From Dadi Require Import Base.Num Base.NumQ Model.DemesFront.
Import ListNotations.

(** a logged call: function, T, per nu argument (was it a callable?, [(t, value at t)]), numeric arguments
    (migration rates in the order m12, m13, ... / proportions), frozen flags, integer arguments, deme ids *)
Record lcall := mkL { l_fn : fname; l_T : Q; l_nus : list (bool * list (Q * Q)); l_fs : list Q; l_fr : list bool;
                      l_ns : list nat; l_ids : list nat }.

Definition Qmax2 (a b : Q) : Q := if Qle_bool a b then b else a.
(** relative distance of two numbers (0 when both are 0) *)
Definition rel_err (a b : Q) : Q :=
  let d := Qabs (Qred (a - b)) in
  let s := Qmax2 (Qabs a) (Qabs b) in
  if Qle_bool s 0 then 0 else Qred (d / s).

Fixpoint max_rel (a b : list Q) : option Q :=
  match a, b with
  | [], [] => Some 0
  | x :: a', y :: b' => match max_rel a' b' with Some r => Some (Qmax2 (rel_err x y) r) | None => None end
  | _, _ => None
  end.

Definition nu_err (m : sizefn Q) (l : bool * list (Q * Q)) : option Q :=
  if Bool.eqb (sf_is_fun m) (fst l)
  then Some (fold_right (fun tv r => Qmax2 (rel_err (sf_eval m (fst tv)) (snd tv)) r) 0 (snd l))
  else None.
Fixpoint nus_err (ms : list (sizefn Q)) (ls : list (bool * list (Q * Q))) : option Q :=
  match ms, ls with
  | [], [] => Some 0
  | m :: ms', l :: ls' => match nu_err m l, nus_err ms' ls' with Some a, Some b => Some (Qmax2 a b) | _, _ => None end
  | _, _ => None
  end.
Fixpoint bools_eqb (a b : list bool) : bool :=
  match a, b with
  | [], [] => true
  | x :: a', y :: b' => Bool.eqb x y && bools_eqb a' b'
  | _, _ => false
  end.

(** None: structural mismatch; Some e: largest relative error of the numeric arguments *)
Definition call_err (m : call Q) (l : lcall) : option Q :=
  if fname_eqb (c_fn m) (l_fn l) && bools_eqb (c_fr m) (l_fr l) && list_eqb (c_ns m) (l_ns l) && list_eqb (c_ids m) (l_ids l)
  then match nus_err (c_nus m) (l_nus l), max_rel (c_fs m) (l_fs l) with
       | Some a, Some b => Some (Qmax2 (rel_err (c_T m) (l_T l)) (Qmax2 a b))
       | _, _ => None
       end
  else None.

(** (true, log2 of the largest relative error) or (false, 1000 + index of the first call that differs) *)
Fixpoint prog_err (k : Z) (ms : list (call Q)) (ls : list lcall) (acc : Q) : bool * Q * Z :=
  match ms, ls with
  | [], [] => (true, acc, k)
  | m :: ms', l :: ls' =>
    match call_err m l with
    | Some e => prog_err (k + 1) ms' ls' (Qmax2 e acc)
    | None => (false, acc, k)
    end
  | _, _ => (false, acc, k)
  end.

Definition check_prog (tol : Q) (c : list (call Q) * list lcall) : bool * Z :=
  let '(ok, e, k) := prog_err 0 (fst c) (snd c) 0 in
  if ok then (Qle_bool e tol, Qlog2 e) else (false, (1000 + k)%Z).

(** is the model's program an error program? *)
Definition is_error_prog (p : list (call Q)) : bool :=
  existsb (fun c => match c_fn c with F_error _ => true | _ => false end) p.

(** the theorems' conclusions evaluated on the Q instance: frozen flag i = (deme i is a frozen deme), for every
    integration call of the program *)
Definition frozen_ok (frozen : list nat) (p : list (call Q)) : bool :=
  forallb (fun c => match c_fn c with
                    | F_one_pop | F_two_pops | F_three_pops | F_four_pops | F_five_pops =>
                        bools_eqb (c_fr c) (map (fun id => mem id frozen) (c_ids c))
                    | _ => true end) p.

(** the implementation raised: the model must refuse as well *)
Definition check_refusal (c : list (call Q) * list lcall) : bool * Z := (is_error_prog (fst c), 0%Z).

(** ** DemesUtil.slice: the graph the real code returns (as `demes` resolves it) against the model's [slice], and the
    conclusion of slice_preserves_size_functions evaluated on the Q instance *)
Definition opt_max (a b : option Q) : option Q :=
  match a, b with Some x, Some y => Some (Qmax2 x y) | _, _ => None end.
Definition time_err (a b : time Q) : option Q :=
  match a, b with Inf, Inf => Some 0 | Fin x, Fin y => Some (rel_err x y) | _, _ => None end.
Fixpoint list_err {A} (f : A -> A -> option Q) (a b : list A) : option Q :=
  match a, b with
  | [], [] => Some 0
  | x :: a', y :: b' => opt_max (f x y) (list_err f a' b')
  | _, _ => None
  end.
Definition epoch_err (m l : epoch Q) : option Q :=
  if sfun_eqb (e_fn m) (e_fn l)
  then opt_max (time_err (e_start m) (e_start l))
               (Some (Qmax2 (rel_err (e_end m) (e_end l)) (Qmax2 (rel_err (e_s0 m) (e_s0 l)) (rel_err (e_s1 m) (e_s1 l)))))
  else None.
Definition deme_err (m l : deme Q) : option Q :=
  if Nat.eqb (d_id m) (d_id l) && list_eqb (d_anc m) (d_anc l)
  then opt_max (time_err (d_start m) (d_start l)) (list_err epoch_err (d_epochs m) (d_epochs l))
  else None.
Definition mig_err (m l : mig Q) : option Q :=
  if Nat.eqb (m_src m) (m_src l) && Nat.eqb (m_dst m) (m_dst l)
  then opt_max (time_err (m_start m) (m_start l)) (Some (Qmax2 (rel_err (m_end m) (m_end l)) (rel_err (m_rate m) (m_rate l))))
  else None.
Definition pulse_err (m l : pulse Q) : option Q :=
  if list_eqb (p_srcs m) (p_srcs l) && Nat.eqb (p_dst m) (p_dst l)
  then opt_max (Some (rel_err (p_time m) (p_time l))) (max_rel (p_props m) (p_props l))
  else None.
Definition graph_err (m l : graph Q) : option Q :=
  opt_max (list_err deme_err (g_demes m) (g_demes l))
          (opt_max (list_err mig_err (g_migs m) (g_migs l)) (list_err pulse_err (g_pulses m) (g_pulses l))).

(** a size probe: (deme, time u in the sliced graph, the size the real sliced graph reports there);
    a migration probe: (source, destination, u, the rate in force in the real sliced graph) *)
Definition size_probe_err (g gs : graph Q) (t : Q) (p : nat * Q * Q) : option Q :=
  let '(id, u, v) := p in
  match find_deme g id, find_deme gs id with
  | Some d, Some d' =>
    match deme_size_at d (Qred (u + t)), deme_size_at d' u with
    | Some a, Some a' => Some (Qmax2 (rel_err a v) (rel_err a a'))
    | _, _ => None
    end
  | _, _ => None
  end.
Definition mig_probe_err (g gs : graph Q) (t : Q) (p : nat * nat * Q * Q) : option Q :=
  let '(src, dst, u, v) := p in
  let a := mig_rate_at g src dst (Qred (u + t)) in
  Some (Qmax2 (rel_err a v) (rel_err a (mig_rate_at gs src dst u))).

Fixpoint probes_err {A} (f : A -> option Q) (k : Z) (l : list A) (acc : Q) : bool * Q * Z :=
  match l with
  | [] => (true, acc, k)
  | p :: l' => match f p with Some e => probes_err f (k + 1) l' (Qmax2 e acc) | None => (false, acc, k) end
  end.

(** case: (resolved graph, slice time, graph returned by the real DemesUtil.slice, size probes, migration probes).
    (true, log2 err) | (false, 1000): the sliced graphs differ in structure | (false, 2000 + k): size probe k is
    undefined on the model side | (false, 3000 + k): migration probe k *)
Definition check_slice (tol : Q)
           (c : graph Q * Q * graph Q * list (nat * Q * Q) * list (nat * nat * Q * Q)) : bool * Z :=
  let '(g, t, lg, sp, mp) := c in
  let gs := slice g t in
  match graph_err gs lg with
  | None => (false, 1000%Z)
  | Some e0 =>
    let '(ok1, e1, k1) := probes_err (size_probe_err g gs t) 0 sp e0 in
    if negb ok1 then (false, (2000 + k1)%Z) else
    let '(ok2, e2, k2) := probes_err (mig_probe_err g gs t) 0 mp e1 in
    if negb ok2 then (false, (3000 + k2)%Z) else (Qle_bool e2 tol, Qlog2 e2)
  end.

(** ** the model's program written out as a flat list of integers, for the harness: the program is the model's claim
    of what the equivalent hand-written dadi model of a graph is; the harness executes it call by call against
    dadi.PhiManip / dadi.Integration / Spectrum.from_phi and compares the spectrum with from_demes of the graph.
    A rational is written (numerator, denominator) in lowest terms, a list is preceded by its length. *)
Local Open Scope Z_scope.
Definition tokQ (x : Q) : list Z := let r := Qred x in [Qnum r; Zpos (Qden r)].
Definition tokN (n : nat) : list Z := [Z.of_nat n].
Definition tokB (b : bool) : list Z := [if b then 1 else 0].
Definition tokL {A} (f : A -> list Z) (l : list A) : list Z := Z.of_nat (length l) :: flat_map f l.
Definition tok_fname (f : fname) : list Z :=
  match f with
  | F_phi_1D => [0; 0; 0] | F_one_pop => [1; 0; 0] | F_two_pops => [2; 0; 0] | F_three_pops => [3; 0; 0]
  | F_four_pops => [4; 0; 0] | F_five_pops => [5; 0; 0] | F_phi_1D_to_2D => [6; 0; 0] | F_split_1 => [7; 0; 0]
  | F_split_2 => [8; 0; 0] | F_2D_to_3D_admix => [9; 0; 0] | F_3D_to_4D => [10; 0; 0] | F_4D_to_5D => [11; 0; 0]
  | F_pulse d k => [12; Z.of_nat d; Z.of_nat k]
  | F_remove_pop => [13; 0; 0] | F_reorder_pops => [14; 0; 0] | F_from_phi => [15; 0; 0]
  | F_error c => [16; Z.of_nat c; 0]
  end.
Definition tok_sizefn (s : sizefn Q) : list Z :=
  match s with
  | SNum a => 0 :: tokQ a ++ tokQ 0%Q ++ tokQ 0%Q
  | SFConst a => 1 :: tokQ a ++ tokQ 0%Q ++ tokQ 0%Q
  | SFLin a b T => 2 :: tokQ a ++ tokQ b ++ tokQ T
  | SFExp a r T => 3 :: tokQ a ++ tokQ r ++ tokQ T
  end.
Definition tok_call (c : call Q) : list Z :=
  tok_fname (c_fn c) ++ tokQ (c_T c) ++ tokL tok_sizefn (c_nus c) ++ tokL tokQ (c_fs c) ++ tokL tokB (c_fr c)
  ++ tokL tokN (c_ns c) ++ tokL tokN (c_ids c).
Definition dump_prog (p : list (call Q)) : list Z := tokL tok_call p.
(** [(case id, program)] -> id, tokens of the program, id, tokens, ... *)
Definition dump_progs (l : list (Z * list (call Q))) : list Z := flat_map (fun p => fst p :: dump_prog (snd p)) l.
