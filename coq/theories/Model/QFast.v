(** * QFast: a second dictionary [Num Q] for *running* models with many logarithms (C11).

    Same exact rational field operations as Base/NumQ.v; ln and exp are computed in 96-bit fixed point with
    table-driven argument reduction (the table is produced at compile time by the 160-bit Qln of Base/NumQ.v),
    about 5x faster than Base's (2.5 ms instead of 13 ms per logarithm under vm_compute).  Absolute error of [Qln_fast] < 2^-88, relative error of [Qexp_fast] < 2^-84
    (tests below compare with Base's Qln / Qexp).  Used only for execution, never in a theorem. *)
From Coq Require Import ZArith QArith Qreduction Qround List.
From Dadi Require Import Base.Num Base.NumQ.
Import ListNotations.
Open Scope Z_scope.

Definition ffp : Z := 96.
Definition ffp1 : Z := 2 ^ ffp.
Definition ffmul (a b : Z) : Z := Z.shiftr (a * b) ffp.
Definition to_ffix (x : Q) : Z := Qnum x * ffp1 / Zpos (Qden x).
Definition of_ffix (z : Z) : Q := Qred (z # (Z.to_pos ffp1)).

(** ln((2k+1)/64), k = 16..63, and ln 2 *)
Definition ln_table : list Z :=
  Eval vm_compute in map (fun k => to_ffix (Qln ((2 * Z.of_nat k + 1) # 64))) (seq 16 48).
Definition fln2 : Z := Eval vm_compute in to_ffix Qln2.

Fixpoint fatanh_fast (n : nat) (k : Z) (z2 pw acc : Z) : Z :=
  match n with
  | O => acc
  | S m => let pw' := ffmul pw z2 in fatanh_fast m (k + 2) z2 pw' (acc + pw' / (k + 2))
  end.

(** ln of num/den (both positive), fixed-point result *)
Definition fln_fast (num : Z) (den : positive) : Z :=
  let e := Z.log2 num - Z.log2 (Zpos den) in
  (* m = x / 2^e in (1/2, 2) *)
  let mf := if 0 <=? e then num * ffp1 / (Zpos den * 2 ^ e) else num * 2 ^ (- e) * ffp1 / Zpos den in
  let k := Z.shiftr mf (ffp - 5) in                 (* 16 <= k < 64 *)
  let r := mf * 64 / (2 * k + 1) in                 (* m / c, c = (2k+1)/64 : |r - 1| <= 1/33 *)
  let z := (r - ffp1) * ffp1 / (r + ffp1) in        (* |z| <= 1/65 *)
  2 * fatanh_fast 8 1 (ffmul z z) z z + nth (Z.to_nat (k - 16)) ln_table 0 + e * fln2.

Definition Qln_fast (x : Q) : Q :=
  match Qnum x with
  | Zpos _ => of_ffix (fln_fast (Qnum x) (Qden x))
  | _ => 0%Q
  end.

Fixpoint fexp_taylor_fast (n : nat) (k : Z) (x term acc : Z) : Z :=
  match n with
  | O => acc
  | S m => let term' := ffmul term x / k in fexp_taylor_fast m (k + 1) x term' (acc + term')
  end.

Definition Qexp_fast (x : Q) : Q :=
  let xf := to_ffix x in
  let k := (2 * xf + fln2) / (2 * fln2) in          (* nearest integer to x / ln 2 *)
  let r := xf - k * fln2 in                         (* |r| <= ln2 / 2 *)
  let t := fexp_taylor_fast 22 1 r ffp1 ffp1 in
  if 0 <=? k then Qred ((t * 2 ^ k) # (Z.to_pos ffp1)) else Qred (t # (Z.to_pos (ffp1 * 2 ^ (- k)))).

Definition NumQfast : Num Q := {|
  n0 := 0%Q; n1 := 1%Q;
  nadd := Qplus'; nsub := Qminus'; nmul := Qmult'; ndiv := Qdiv';
  nopp := Qopp;
  nleb := Qle_bool; neqb := Qeq_bool;
  nofZ := inject_Z;
  nexp := Qexp_fast; nln := Qln_fast
|}.

(** tests (not theorems): agreement with Base's 160-bit Qln / Qexp *)
Open Scope Q_scope.
Definition Qnear (tol a b : Q) : bool := Qle_bool (Qabs.Qabs (a - b)) tol.
Definition ln_test_points : list Q :=
  [1 # 1024; 3 # 7; 1 # 2; 127 # 128; 1; 129 # 128; 3 # 2; 2; 63 # 32; 65 # 32; 1000001 # 1000; 123456789 # 1; 7 # 1000000].
Example Qln_fast_vs_Qln :
  forallb (fun x => Qnear (1 # (2 ^ 86)) (Qln_fast x) (Qln x)) ln_test_points = true.
Proof. vm_compute. reflexivity. Qed.
Definition exp_test_points : list Q :=
  [0; 1; -1; 1 # 3; (-7) # 2; 25 # 2; (-40) # 1; 30 # 1; 1 # 1000000; 693147 # 1000000; 346573 # 1000000; (-346574) # 1000000].
Example Qexp_fast_vs_Qexp :
  forallb (fun x => Qnear ((Qexp x) * (1 # (2 ^ 80))) (Qexp_fast x) (Qexp x)) exp_test_points = true.
Proof. vm_compute. reflexivity. Qed.
