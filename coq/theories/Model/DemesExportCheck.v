(** Q-side comparison of the exporter model (Model/DemesExportModel.v) with what the real dadi.Demes.output returns
    (resolved by `demes`), for the correspondence check of C16.  No proofs here. *)
From Coq Require Import ZArith QArith Qabs List Bool Arith.
From Dadi Require Import Base.Num Base.NumQ Model.DemesFront Model.DemesFrontCheck Model.DemesExportModel.
Import ListNotations.

(** a discrete event reported by `demes` against the model's: same kind, same demes, time and proportions compared *)
Definition event_err (m l : tevent Q) : option Q :=
  let t := rel_err (fst m) (fst l) in
  match snd m, snd l with
  | EPulse s d p, EPulse s' d' p' =>
    if list_eqb s s' && Nat.eqb d d' then opt_max (Some t) (max_rel p p') else None
  | EBranch p c, EBranch p' c' => if Nat.eqb p p' && Nat.eqb c c' then Some t else None
  | EAdmix ps pr c, EAdmix ps' pr' c' | EMerge ps pr c, EMerge ps' pr' c' =>
    if list_eqb ps ps' && Nat.eqb c c' then opt_max (Some t) (max_rel pr pr') else None
  | ESplit p cs, ESplit p' cs' => if Nat.eqb p p' && list_eqb cs cs' then Some t else None
  | _, _ => None
  end.

(** case: (event log, Nref, generation_time, the graph [output] returned, the discrete events `demes` reports for that
    graph in generations, the names of the populations of the last record).  Names are ranks in the graph's deme list.
    (true, log2 err) | (false, 1000): the graphs differ in structure | (false, 2000): the events differ |
    (false, 3000): the final names differ *)
Definition check_export (tol : Q) (c : elog Q * Q * option Q * graph Q * list (tevent Q) * list nat) : bool * Z :=
  let '(lg, N, gt, g, evs, fin) := c in
  if negb (list_eqb (final_ids lg) fin) then (false, 3000%Z) else
  match graph_err (export_model N gt lg) g with
  | None => (false, 1000%Z)
  | Some e0 =>
    match list_err event_err (export_events N gt lg) evs with
    | None => (false, 2000%Z)
    | Some e1 => let e := Qmax2 e0 e1 in (Qle_bool e tol, Qlog2 e)
    end
  end.

(** the log read back as calls against the calls that were actually made (logged from the native run): names are not
    compared (a native program passes none), a size argument is compared by its values at the logged times whether it
    was passed as a number or as a function *)
Definition nu_val_err (m : sizefn Q) (l : bool * list (Q * Q)) : Q :=
  fold_right (fun tv r => Qmax2 (rel_err (sf_eval m (fst tv)) (snd tv)) r) 0%Q (snd l).
Fixpoint nus_val_err (ms : list (sizefn Q)) (ls : list (bool * list (Q * Q))) : option Q :=
  match ms, ls with
  | [], [] => Some 0%Q
  | m :: ms', l :: ls' => match nus_val_err ms' ls' with Some b => Some (Qmax2 (nu_val_err m l) b) | None => None end
  | _, _ => None
  end.
Definition native_call_err (m : call Q) (l : lcall) : option Q :=
  if fname_eqb (c_fn m) (l_fn l) && bools_eqb (c_fr m) (l_fr l) && list_eqb (c_ns m) (l_ns l)
  then match nus_val_err (c_nus m) (l_nus l), max_rel (c_fs m) (l_fs l) with
       | Some a, Some b => Some (Qmax2 (rel_err (c_T m) (l_T l)) (Qmax2 a b))
       | _, _ => None
       end
  else None.
Fixpoint native_err (k : Z) (ms : list (call Q)) (ls : list lcall) (acc : Q) : bool * Q * Z :=
  match ms, ls with
  | [], [] => (true, acc, k)
  | m :: ms', l :: ls' =>
    match native_call_err m l with
    | Some e => native_err (k + 1) ms' ls' (Qmax2 e acc)
    | None => (false, acc, k)
    end
  | _, _ => (false, acc, k)
  end.
(** case: (event log, the calls logged from the native run without the final from_phi).
    (true, log2 err) | (false, 1000 + index of the first call that differs) *)
Definition check_native (tol : Q) (c : elog Q * list lcall) : bool * Z :=
  let '(ok, e, k) := native_err 0 (native_calls (fst c)) (snd c) 0%Q in
  if ok then (Qle_bool e tol, Qlog2 e) else (false, (1000 + k)%Z).
