(** * Projection: hypergeometric down-projection of a frequency spectrum
    (dadi/Numerics.py [_lncomb], [_cached_projection]; dadi/Spectrum_mod.py [project],
    [_project_one_axis], [fold], [unfold]).

    Executable model only.  Values are [Num]-polymorphic (run on Q, theorems on R); binomials are
    exact integers (the code computes exp(lnC + lnC - lnC) with gammaln, the model the exact rational).
    A d-dimensional array is a nested list [tens A d]; data and mask are separate arrays, exactly as the
    code treats [.data] and [.mask] independently. *)
From Coq Require Import ZArith NArith List Bool Arith.
From Dadi Require Import Base.Num.
Import ListNotations.

(** ** exact binomial coefficients (binary integers: C(200,100) has 59 digits)
    multiplicative form C(n,k) = C(n,k-1) * (n-k+1) / k (every division is exact), on the smaller of k, n-k *)
Fixpoint binM (n k : nat) : N :=
  match k with O => 1%N | S k' => (binM n k' * N.of_nat (n - k') / N.of_nat k)%N end.
Definition binN (n k : nat) : N :=
  if (k <=? n)%nat then binM n (Nat.min k (n - k)) else 0%N.
Definition bZ (n k : nat) : Z := Z.of_N (binN n k).

(** ** nested arrays *)
Fixpoint tens (A : Type) (d : nat) : Type :=
  match d with O => A | S d' => list (tens A d') end.

Section Tensor.
  Context {A : Type} (zero : A) (add : A -> A -> A).

  (** the empty list is a shape-free zero: addition zips to the longer operand *)
  Definition tzero (d : nat) : tens A d :=
    match d with O => zero | S _ => [] end.
  Fixpoint ladd {T} (f : T -> T -> T) (x y : list T) : list T :=
    match x, y with
    | [], _ => y
    | _, [] => x
    | a :: x', b :: y' => f a b :: ladd f x' y'
    end.
  Fixpoint tadd (d : nat) : tens A d -> tens A d -> tens A d :=
    match d with O => add | S d' => ladd (tadd d') end.
  Definition bsum (d : nat) (g : nat -> tens A d) (l : list nat) : tens A d :=
    fold_right (fun j acc => tadd d (g j) acc) (tzero d) l.
End Tensor.

Fixpoint tmap {A B : Type} (d : nat) (f : A -> B) : tens A d -> tens B d :=
  match d with O => f | S d' => map (tmap d' f) end.

(** reverse along every axis (Numerics.reverse_array) *)
Fixpoint trev {A : Type} (d : nat) : tens A d -> tens A d :=
  match d with O => fun a => a | S d' => fun l => rev (map (trev d') l) end.

(** map with the running sum of the indices (Spectrum._total_per_entry) *)
Fixpoint timap {A B : Type} (d : nat) (f : nat -> A -> B) (acc : nat) : tens A d -> tens B d :=
  match d with
  | O => f acc
  | S d' => fun l => map (fun p => timap d' f (acc + fst p) (snd p)) (combine (seq 0 (length l)) l)
  end.

Fixpoint tzip {A B C : Type} (d : nat) (f : A -> B -> C) : tens A d -> tens B d -> tens C d :=
  match d with
  | O => f
  | S d' => fun x y => map (fun p => tzip d' f (fst p) (snd p)) (combine x y)
  end.

(** shape read off the first entries, as numpy's .shape *)
Fixpoint tshape {A : Type} (d : nat) : tens A d -> list nat :=
  match d with
  | O => fun _ => []
  | S d' => fun l => length l :: match l with [] => [] | x :: _ => tshape d' x end
  end.

Fixpoint tflat {A : Type} (d : nat) : tens A d -> list A :=
  match d with O => fun a => [a] | S d' => fun l => flat_map (tflat d') l end.

(** .flat[0] := v and .flat[-1] := v (Spectrum.mask_corners) *)
Fixpoint tset_first {A : Type} (d : nat) (v : A) : tens A d -> tens A d :=
  match d with
  | O => fun _ => v
  | S d' => fun l => match l with [] => [] | x :: t => tset_first d' v x :: t end
  end.
Fixpoint lset_last {T : Type} (f : T -> T) (l : list T) : list T :=
  match l with [] => [] | [x] => [f x] | x :: t => x :: lset_last f t end.
Fixpoint tset_last {A : Type} (d : nat) (v : A) : tens A d -> tens A d :=
  match d with O => fun _ => v | S d' => lset_last (tset_last d' v) end.
Definition mask_corners (d : nat) (m : tens bool d) : tens bool d :=
  tset_last d true (tset_first d true m).

(** ** the projection window and weights *)
(** least, most = max(n - (proj_from - hits), 0), min(hits, n)   [nat subtraction truncates at 0] *)
Definition least (n m j : nat) : nat := Nat.max (m - (n - j)) 0.
Definition most (m j : nat) : nat := Nat.min j m.
Definition in_window (n m j i : nat) : bool := (least n m j <=? i)%nat && (i <=? most m j)%nat.

Section Weights.
  Context {F : Type} `{Num F}.
  Local Open Scope num_scope.

  (** exp(lnC(m,i) + lnC(n-m,j-i) - lnC(n,j)); lnC is -inf (weight 0) when j-i < 0 or j-i > n-m *)
  Definition hweight (n m j i : nat) : F :=
    if (i <=? j)%nat then nofZ (bZ m i) * nofZ (bZ (n - m) (j - i)) / nofZ (bZ n j) else n0.

  (** Numerics._cached_projection(proj_to = m, proj_from = n, hits = j): vector of length m+1 *)
  Definition cached_projection (m n j : nat) : list F :=
    if (n <? m)%nat then repeat n0 (m + 1)
    else let c := nofZ (bZ n j) in
         map (fun i => if (i <=? j)%nat then nofZ (bZ m i) * nofZ (bZ (n - m) (j - i)) / c else n0) (seq 0 (m + 1)).

  (** coefficient with which source slice j enters target slice i in _project_one_axis:
      data[j] * proj[i] inside the window [least, most], nothing outside.  proj[i] is entry i of
      [cached_projection m n j], i.e. [hweight n m j i] (lemma cached_projection_nth); the coefficient is
      computed once per (i, j), not once per array entry. *)
  Definition pcoef (n m i j : nat) : F -> F :=
    let inw := in_window n m j i in
    let w := if inw then hweight n m j i else n0 in
    fun a => if inw then a * w else n0.
  Definition pmask (n m i j : nat) : bool -> bool :=
    let inw := in_window n m j i in
    fun b => if inw then b else false.
End Weights.

(** ** projection along one axis, generic in the entry type
    [f i j] maps an entry of source slice j to its contribution to target slice i.
    Axis 0:  pfs[i] = sum over hits j in range(len) of f i j (self[j]);  deeper axes: map. *)
Section ProjAxis.
  Context {A : Type} (zero : A) (add : A -> A -> A).

  Definition proj0 (d : nat) (f : nat -> nat -> A -> A) (m : nat) (xs : list (tens A d)) : list (tens A d) :=
    map (fun i => bsum zero add d (fun j => tmap d (f i j) (nth j xs (tzero zero d))) (seq 0 (length xs)))
        (seq 0 (m + 1)).

  Fixpoint proj_axis (d : nat) (ax : nat) (f : nat -> nat -> A -> A) (m : nat) : tens A d -> tens A d :=
    match d with
    | O => fun a => a
    | S d' => match ax with
              | O => proj0 d' f m
              | S ax' => map (proj_axis d' ax' f m)
              end
    end.
End ProjAxis.

Section Spectrum.
  Context {F : Type} `{Num F}.
  Local Open Scope num_scope.

  Definition sample_sizes {A} (d : nat) (x : tens A d) : list nat := map pred (tshape d x).

  (** Spectrum._project_one_axis(n = m, axis): None = ValueError (m > sample size) *)
  Definition project_one_axis (d : nat) (m ax : nat) (x : tens F d) (mk : tens bool d)
    : option (tens F d * tens bool d) :=
    let n := nth ax (sample_sizes d x) 0%nat in
    if (n <? m)%nat then None
    else Some (proj_axis n0 nadd d ax (pcoef n m) m x, proj_axis false orb d ax (pmask n m) m mk).

  (** the loop of Spectrum.project: axes in order 0,1,..., skipping axes whose size is unchanged;
      the comparison is with the ORIGINAL sample sizes *)
  Fixpoint project_loop (d : nat) (ax : nat) (ns orig : list nat) (x : tens F d) (mk : tens bool d)
    : option (tens F d * tens bool d) :=
    match ns, orig with
    | [], _ => Some (x, mk)
    | m :: ns', n :: orig' =>
        if (m =? n)%nat then project_loop d (S ax) ns' orig' x mk
        else match project_one_axis d m ax x mk with
             | None => None
             | Some (x', mk') => project_loop d (S ax) ns' orig' x' mk'
             end
    | _ :: _, [] => None
    end.

  (** ** fold / unfold (only what project needs; the full treatment is C09) *)
  Definition total_samples {A} (d : nat) (x : tens A d) : nat := fold_right Nat.add 0%nat (sample_sizes d x).
  (* where_folded_out = total_per_entry > int(total_samples/2) *)
  Definition folded_out (T t : nat) : bool := (T / 2 <? t)%nat.
  (* where_ambiguous = total_per_entry == total_samples/2. *)
  Definition ambiguous (T t : nat) : bool := (2 * t =? T)%nat.

  Definition unfold_data (d : nat) (x : tens F d) : tens F d :=
    tzip d (fun a b => (a + b) / n2) x (trev d x).
  Definition unfold_mask (d : nat) (mk : tens bool d) : tens bool d :=
    let T := total_samples d mk in
    let nm := timap d (fun t b => xorb b (folded_out T t)) 0 mk in
    mask_corners d (tzip d orb nm (trev d nm)).

  Definition fold_data (d : nat) (x : tens F d) : tens F d :=
    let T := total_samples d x in
    let outpart := timap d (fun t a => if folded_out T t then a else n0) 0 x in
    let s := tzip d nadd x (trev d outpart) in
    let s := timap d (fun t a => if folded_out T t then n0 else a) 0 s in
    let amb := timap d (fun t a => if ambiguous T t then a else n0) 0 x in
    tzip d nadd s (tzip d (fun a b => (- nhalf) * a + nhalf * b) amb (trev d amb)).
  Definition fold_mask (d : nat) (mk : tens bool d) : tens bool d :=
    let T := total_samples d mk in
    let fm := tzip d orb mk (trev d mk) in
    mask_corners d (timap d (fun t b => b || folded_out T t) 0 fm).

  (** Spectrum.project(ns) on (data, mask, folded flag); None = ValueError *)
  Definition project (d : nat) (ns : list nat) (folded : bool) (x : tens F d) (mk : tens bool d)
    : option (tens F d * tens bool d) :=
    let ss := sample_sizes d x in
    if negb (length ns =? d)%nat then None
    else if existsb (fun p => (snd p <? fst p)%nat) (combine ns ss) then None
    else
      let x0 := if folded then unfold_data d x else x in
      let m0 := if folded then unfold_mask d mk else mk in
      match project_loop d 0 ns ss x0 m0 with
      | None => None
      | Some (x1, m1) => Some (if folded then (fold_data d x1, fold_mask d m1) else (x1, m1))
      end.
End Spectrum.
