(** * Qlgamma: rational approximation of ln Gamma(x) for rational x > 0 (runs the likelihood model over Q).

    Stirling series  (x-1/2) ln x - x + ln(2 pi)/2 + sum_{k=1..8} B_2k / (2k(2k-1) x^(2k-1))
    after shifting the argument to x+n >= 20 with  lnGamma(x) = lnGamma(x+n) - ln(x (x+1) ... (x+n-1)).
    First omitted term: 43867/244188 / x^17 < 1.4e-23 at x = 20 (so the absolute error is below 1e-22);
    everything is done in the 96-bit fixed point of Model/QFast.v (absolute rounding error ~ 2^-85 x the
    argument).  The constant ln(2 pi)/2 is obtained by calibration lnGamma(1) = 0 (no value of pi is
    typed in), and checked against its decimal expansion below.  Used only for execution, never in a theorem. *)
From Coq Require Import ZArith QArith Qreduction Qround List.
From Dadi Require Import Base.Num Base.NumQ Model.QFast.
Import ListNotations.
Open Scope Z_scope.

(** B_2k / (2k (2k-1)), k = 1..8, as fixed-point numbers (96 fractional bits, Model/QFast.v) *)
Definition stirling_coefs : list Z :=
  Eval vm_compute in
  map (fun p => fst p * ffp1 / snd p)
      [(1, 12); (-1, 360); (1, 1260); (-1, 1680); (1, 1188); (-691, 360360); (1, 156); (-3617, 122400)].

Fixpoint stir_horner (cs : list Z) (xi2 : Z) : Z :=
  match cs with
  | [] => 0
  | c :: t => c + ffmul xi2 (stir_horner t xi2)
  end.
Definition stir_sum (xf : Z) : Z :=              (* xf : fixed-point x, x >= 20 *)
  let xi := ffp1 * ffp1 / xf in
  ffmul xi (stir_horner stirling_coefs (ffmul xi xi)).

Definition fln_fix (zf : Z) : Z := fln_fast zf (Z.to_pos ffp1).   (* ln of a positive fixed-point number *)

(** (x - 1/2) ln x - x + stirling(x), fixed point in and out *)
Definition lgam_core_noC (xf : Z) : Z :=
  ffmul (xf - ffp1 / 2) (fln_fix xf) - xf + stir_sum xf.

Fixpoint rising (xf : Z) (n : nat) : Z :=        (* x (x+1) ... (x+n-1) *)
  match n with O => ffp1 | S k => ffmul xf (rising (xf + ffp1) k) end.

Definition lgam_noC (x : Q) : Z :=
  let n := Z.max 0 (20 - Qfloor x) in
  let xf := to_ffix x in
  lgam_core_noC (xf + n * ffp1) - (if n =? 0 then 0 else fln_fix (rising xf (Z.to_nat n))).

Definition half_ln_2pi_fix : Z := Eval vm_compute in (- lgam_noC 1).

Definition Qlgamma (x : Q) : Q :=
  match Qnum x with
  | Zpos _ => of_ffix (lgam_noC x + half_ln_2pi_fix)
  | _ => 0%Q
  end.

(** sanity (tests, not theorems): ln(2 pi)/2 = 0.91893853320467274178032973640561763986...,
    lnGamma(2) = 0, lnGamma(1/2) = ln(pi)/2 = 0.57236494292470008707171367567652935582...,
    lnGamma(101) = ln(100!) = 363.73937555556349014407999336965563640... *)
Open Scope Q_scope.
Definition Qwithin (x lo hi : Q) : bool := Qle_bool lo x && Qle_bool x hi.
Example half_ln_2pi_value :
  Qwithin (of_ffix half_ln_2pi_fix) (91893853320467274177 # 100000000000000000000)
                                   (91893853320467274179 # 100000000000000000000) = true.
Proof. vm_compute. reflexivity. Qed.
Example Qlgamma_2 : Qwithin (Qlgamma 2) ((-1) # 100000000000000000000) (1 # 100000000000000000000) = true.
Proof. vm_compute. reflexivity. Qed.
Example Qlgamma_half :
  Qwithin (Qlgamma (1 # 2)) (57236494292470008706 # 100000000000000000000)
                            (57236494292470008708 # 100000000000000000000) = true.
Proof. vm_compute. reflexivity. Qed.
Example Qlgamma_101 :
  Qwithin (Qlgamma 101) (36373937555556349014407 # 100000000000000000000)
                        (36373937555556349014409 # 100000000000000000000) = true.
Proof. vm_compute. reflexivity. Qed.
Example Qlgamma_small :   (* lnGamma(1/1024) = 6.93090890241946... *)
  Qwithin (Qlgamma (1 # 1024)) (693090890241945 # 100000000000000) (693090890241947 # 100000000000000) = true.
Proof. vm_compute. reflexivity. Qed.
